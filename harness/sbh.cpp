// Implementation side of the correspondence check: the same line protocol as
// ocaml/driver.ml, executed by the real library built from /repo's working tree.
// One self-contained case per line, one result line per case.
#include <cstdio>
#include <cstdlib>
#include <cstring>
#include <cstdint>
#include <cmath>
#include <csignal>
#include <csetjmp>
#include <string>
#include <vector>
#include <sstream>
#include <unistd.h>
#include <sys/mman.h>
#include <fcntl.h>

#include <skybrush/skybrush.h>
#include <skybrush/formats/binary.h>
#include <skybrush/utils.h>
extern "C" {
#include "parsing.h"
}

// ---------------------------------------------------------------- utilities
#if SBH_WRAP
extern "C" void aw_fail_next_plain(int k);
#endif

// every library object starts out as garbage (0xA5): an init function that forgets a field shows
#define SBH_DIRTY(obj) memset(&(obj), 0xA5, sizeof(obj))

static sigjmp_buf g_jmp;
static volatile sig_atomic_t g_in_case = 0;

static void on_signal(int sig)
{
    if (g_in_case) {
        siglongjmp(g_jmp, sig);
    }
    _exit(99);
}

static std::vector<uint8_t> unhex(const std::string& s)
{
    std::vector<uint8_t> out;
    if (s == "-") {
        return out;
    }
    for (size_t i = 0; i + 1 < s.size(); i += 2) {
        out.push_back((uint8_t)strtoul(s.substr(i, 2).c_str(), 0, 16));
    }
    return out;
}

static std::string hex(const uint8_t* p, size_t n)
{
    if (n == 0) {
        return "-";
    }
    static const char* d = "0123456789abcdef";
    std::string s;
    for (size_t i = 0; i < n; i++) {
        s.push_back(d[p[i] >> 4]);
        s.push_back(d[p[i] & 15]);
    }
    return s;
}

static float f_of_bits(uint32_t u)
{
    float f;
    memcpy(&f, &u, 4);
    return f;
}
static uint32_t bits_of_f(float f)
{
    uint32_t u;
    memcpy(&u, &f, 4);
    return u;
}
static float f_of_hex(const std::string& s) { return f_of_bits((uint32_t)strtoul(s.c_str(), 0, 16)); }
static std::string fhex(float f)
{
    char b[16];
    snprintf(b, sizeof b, "%08x", bits_of_f(f));
    return b;
}

// Guarded copy: the bytes end exactly at a PROT_NONE page, so that a read
// past the end of the supplied bytes faults (caught and reported as a crash).
struct Guarded {
    uint8_t* base;
    size_t maplen;
    uint8_t* ptr;
    size_t n;
    Guarded(const std::vector<uint8_t>& v)
    {
        long pg = sysconf(_SC_PAGESIZE);
        n = v.size();
        size_t pages = (n + pg - 1) / pg + 1;
        maplen = (pages + 1) * pg;
        base = (uint8_t*)mmap(0, maplen, PROT_READ | PROT_WRITE, MAP_PRIVATE | MAP_ANONYMOUS, -1, 0);
        memset(base, 0xA5, maplen);
        mprotect(base + pages * pg, pg, PROT_NONE);
        ptr = base + pages * pg - n;
        if (n) {
            memcpy(ptr, v.data(), n);
        }
    }
    ~Guarded() { munmap(base, maplen); }
};

static std::vector<std::string> split(const std::string& line)
{
    std::vector<std::string> w;
    std::istringstream is(line);
    std::string t;
    while (is >> t) {
        w.push_back(t);
    }
    return w;
}

static std::string S(long long v) { return std::to_string(v); }
static std::string U(unsigned long long v) { return std::to_string(v); }

// ---------------------------------------------------------------- C19
static std::string op_parse(const std::vector<std::string>& w)
{
    std::vector<uint8_t> b = unhex(w[1]);
    size_t off = strtoul(w[2].c_str(), 0, 10);
    Guarded g(b);
    long long v;
    if (w[0] == "u16") {
        v = sb_parse_uint16(g.ptr, &off);
    } else if (w[0] == "i16") {
        v = sb_parse_int16(g.ptr, &off);
    } else if (w[0] == "u32") {
        v = sb_parse_uint32(g.ptr, &off);
    } else {
        v = sb_parse_int32(g.ptr, &off);
    }
    return "ok " + S(v) + " " + U(off);
}

static std::string op_write(const std::vector<std::string>& w)
{
    std::vector<uint8_t> b = unhex(w[1]);
    size_t off = strtoul(w[2].c_str(), 0, 10);
    long long v = strtoll(w[3].c_str(), 0, 10);
    Guarded g(b);
    if (w[0] == "w16") {
        if (v < 0) {
            sb_write_int16(g.ptr, &off, (int16_t)v);
        } else {
            sb_write_uint16(g.ptr, &off, (uint16_t)v);
        }
    } else {
        if (v < 0) {
            sb_write_int32(g.ptr, &off, (int32_t)v);
        } else {
            sb_write_uint32(g.ptr, &off, (uint32_t)v);
        }
    }
    return "ok " + hex(g.ptr, g.n) + " " + U(off);
}

static std::string op_vu(const std::vector<std::string>& w)
{
    std::vector<uint8_t> b = unhex(w[1]);
    size_t n = strtoul(w[2].c_str(), 0, 10);
    size_t off = strtoul(w[3].c_str(), 0, 10);
    // only the first n bytes are made available: a read at or beyond the
    // stated length faults
    if (n < b.size()) {
        b.resize(n);
    }
    Guarded g(b);
    uint32_t v = 0xdeadbeef;
    sb_error_t e = sb_parse_varuint32(g.ptr, n, &off, &v);
    if (e == SB_SUCCESS) {
        return "ok " + U(v) + " " + U(off);
    }
    return "err " + S(e) + " " + U(off);
}

static std::string op_rgb(const std::vector<std::string>& w)
{
    if (w[0] == "rgbdec") {
        sb_rgb_color_t c = sb_rgb_color_decode_rgb565((uint16_t)strtoul(w[1].c_str(), 0, 10));
        return "ok " + S(c.red) + " " + S(c.green) + " " + S(c.blue);
    }
    sb_rgb_color_t c;
    c.red = (uint8_t)atoi(w[1].c_str());
    c.green = (uint8_t)atoi(w[2].c_str());
    c.blue = (uint8_t)atoi(w[3].c_str());
    return "ok " + S(sb_rgb_color_encode_rgb565(c));
}

// ---------------------------------------------------------------- container
static int make_fd(const std::vector<uint8_t>& v)
{
    int fd = memfd_create("sbh", 0);
    if (fd < 0) {
        perror("memfd_create");
        exit(3);
    }
    size_t off = 0;
    while (off < v.size()) {
        ssize_t k = write(fd, v.data() + off, v.size() - off);
        if (k <= 0) {
            perror("write");
            exit(3);
        }
        off += k;
    }
    lseek(fd, 0, SEEK_SET);
    return fd;
}

static std::string code(sb_error_t e) { return e == SB_SUCCESS ? "0" : "e" + S(e); }

static std::string op_file(const std::vector<std::string>& w)
{
    bool mem = w[1] == "mem";
    std::vector<uint8_t> b = unhex(w[2]);
    Guarded g(b);
    int fd = -1;
    sb_binary_file_parser_t parser;
    SBH_DIRTY(parser);
    sb_error_t e;
    std::string out;
    if (mem) {
        e = sb_binary_file_parser_init_from_buffer(&parser, g.ptr, g.n);
    } else {
        fd = make_fd(b);
        e = sb_binary_file_parser_init_from_file(&parser, fd);
    }
    out = "init:" + code(e);
    if (e == SB_SUCCESS) {
        std::string script = w.size() > 3 ? w[3] : "-";
        std::stringstream ss(script);
        std::string tok;
        bool cursor_unknown = false;
        while (std::getline(ss, tok, ',')) {
            if (tok.empty() || tok == "-") {
                continue;
            }
            // after a failing operation the cursor is not specified (the model's result type does not carry the
            // parser state of a failed call): cursor-dependent operations are not made until a rewind or a lookup
            // - which start over from the first block - has succeeded
            {
                size_t sp = out.rfind(' ');
                std::string last = out.substr(sp == std::string::npos ? 0 : sp + 1);
                size_t c1 = last.find(':');
                if (c1 != std::string::npos && c1 + 1 < last.size() && (last[c1 + 1] == 'e' || last[c1 + 1] == 'o')) {
                    cursor_unknown = true;
                } else if (last[0] == 'r' || last[0] == 'f') {
                    cursor_unknown = false;
                }
                if (cursor_unknown && tok[0] != 'r' && tok[0] != 'f' && tok[0] != 'v') {
                    continue;
                }
            }
            switch (tok[0]) {
            case 'c': {
                sb_binary_block_t blk = sb_binary_file_get_current_block(&parser);
                out += " c:" + S((int)blk.type) + "," + S(blk.length) + "," + S(blk.start_of_body);
                break;
            }
            case 'v':
                out += " v:" + S(sb_binary_file_parser_get_version(&parser));
                break;
            case 'n':
                out += " n:" + code(sb_binary_file_seek_to_next_block(&parser));
                break;
            case 'r':
                out += " r:" + code(sb_binary_file_rewind(&parser));
                break;
            case 'f':
                out += " f:" + code(sb_binary_file_find_first_block_by_type(&parser, (sb_binary_block_type_t)atoi(tok.c_str() + 1)));
                break;
            case 'b': {
                sb_binary_block_t blk = sb_binary_file_get_current_block(&parser);
                std::vector<uint8_t> dst(blk.length + 1, 0xEE);
                sb_error_t r = sb_binary_file_read_current_block(&parser, dst.data());
                out += " b:" + code(r);
                if (r == SB_SUCCESS) {
                    out += ":" + hex(dst.data(), blk.length);
                }
                break;
            }
            case 'x': {
                uint8_t* p = 0;
                size_t size = 0;
                sb_bool_t owned = 0;
                sb_error_t r = sb_binary_file_read_current_block_ex(&parser, &p, &size, &owned);
                if (r != SB_SUCCESS) {
                    out += " x:" + code(r);
                } else if (!owned && (p < g.ptr || p + size > g.ptr + g.n)) {
                    // a view that extends beyond the supplied bytes
                    out += " x:oob1@" + S((long long)(p - g.ptr) + (long long)size);
                } else {
                    out += " x:0:" + S(owned ? 1 : 0) + ":" + hex(p, size);
                    if (owned) {
                        free(p);
                    }
                }
                break;
            }
            default:
                out += " ?" + tok;
            }
        }
    }
    sb_binary_file_parser_destroy(&parser);
    if (fd >= 0) {
        close(fd);
    }
    // opening, walking and reading a file never changes the caller's bytes
    if (mem && g.n == b.size() && g.n && memcmp(g.ptr, b.data(), g.n) != 0) {
        out += " caller-bytes-modified";
    }
    return out;
}

// load <kind> <route> <hex>: the loader, then the bytes the object works on
static std::string op_load(const std::vector<std::string>& w)
{
    const std::string& kind = w[1];
    bool mem = w[2] == "mem";
    std::vector<uint8_t> b = unhex(w[3]);
    Guarded g(b);
    int fd = mem ? -1 : make_fd(b);
    std::string out;
    sb_error_t e;
    if (kind == "traj") {
        sb_trajectory_t t;
        SBH_DIRTY(t);
        e = mem ? sb_trajectory_init_from_binary_file_in_memory(&t, g.ptr, g.n) : sb_trajectory_init_from_binary_file(&t, fd);
        if (e == SB_SUCCESS) {
            out = "ok " + S(sb_buffer_is_view(&t.buffer) ? 0 : 1) + " " + hex(SB_BUFFER(t.buffer), sb_buffer_size(&t.buffer));
            sb_trajectory_destroy(&t);
        }
    } else if (kind == "light") {
        sb_light_program_t t;
        SBH_DIRTY(t);
        e = mem ? sb_light_program_init_from_binary_file_in_memory(&t, g.ptr, g.n) : sb_light_program_init_from_binary_file(&t, fd);
        if (e == SB_SUCCESS) {
            out = "ok " + S(sb_buffer_is_view(&t.buffer) ? 0 : 1) + " " + hex(SB_BUFFER(t.buffer), sb_buffer_size(&t.buffer));
            sb_light_program_destroy(&t);
        }
    } else if (kind == "yaw") {
        sb_yaw_control_t t;
        SBH_DIRTY(t);
        e = mem ? sb_yaw_control_init_from_binary_file_in_memory(&t, g.ptr, g.n) : sb_yaw_control_init_from_binary_file(&t, fd);
        if (e == SB_SUCCESS) {
            out = "ok " + S(sb_buffer_is_view(&t.buffer) ? 0 : 1) + " " + hex(SB_BUFFER(t.buffer), sb_buffer_size(&t.buffer));
            sb_yaw_control_destroy(&t);
        }
    } else {
        sb_rth_plan_t t;
        SBH_DIRTY(t);
        e = mem ? sb_rth_plan_init_from_binary_file_in_memory(&t, g.ptr, g.n) : sb_rth_plan_init_from_binary_file(&t, fd);
        if (e == SB_SUCCESS) {
            out = "ok " + S(t.owner ? 1 : 0) + " " + hex(t.buffer, t.buffer_length);
            sb_rth_plan_destroy(&t);
        }
    }
    if (fd >= 0) {
        close(fd);
    }
    // loading (and destroying what was loaded) never changes the caller's bytes
    if (mem && g.n == b.size() && g.n && memcmp(g.ptr, b.data(), g.n) != 0) {
        return (e == SB_SUCCESS ? out : "e" + S(e)) + " caller-bytes-modified";
    }
    return e == SB_SUCCESS ? out : "e" + S(e);
}

static std::vector<std::string> csv(const std::string& s)
{
    std::vector<std::string> out;
    if (s == "-") {
        return out;
    }
    std::stringstream ss(s);
    std::string tok;
    while (std::getline(ss, tok, ',')) {
        out.push_back(tok);
    }
    return out;
}

// the byte string "empty" selects the *_init_empty constructor of the object
static std::vector<uint8_t> unhex_or_empty(const std::string& h, bool* empty)
{
    *empty = (h == "empty");
    return *empty ? std::vector<uint8_t>() : unhex(h);
}

// rth <hex> <point indices csv> <times csv (binary32 hex)>
static std::string op_rth(const std::vector<std::string>& w)
{
    bool empty = false;
    std::vector<uint8_t> b = unhex_or_empty(w[1], &empty);
    Guarded g(b);
    sb_rth_plan_t plan;
    SBH_DIRTY(plan);
    sb_error_t e = empty ? sb_rth_plan_init_empty(&plan) : sb_rth_plan_init_from_buffer(&plan, g.ptr, g.n);
    if (e != SB_SUCCESS) {
        return "init:" + code(e);
    }
    std::string out = "init:0 ne=" + U(sb_rth_plan_get_num_entries(&plan)) + " np=" + U(sb_rth_plan_get_num_points(&plan));
    for (const std::string& t : csv(w[2])) {
        sb_vector2_t pt;
        e = sb_rth_plan_get_point(&plan, (size_t)strtoull(t.c_str(), 0, 10), &pt);
        out += " p:" + code(e);
        if (e == SB_SUCCESS) {
            out += ":" + fhex(pt.x) + "," + fhex(pt.y);
        }
    }
    for (const std::string& t : csv(w[3])) {
        sb_rth_plan_entry_t r;
        SBH_DIRTY(r);
        memset(&r, 0x5A, sizeof r);
        e = sb_rth_plan_evaluate_at(&plan, f_of_hex(t), &r);
        out += " q:" + code(e);
        if (e == SB_SUCCESS) {
            out += ":" + fhex(r.time_sec) + "," + S((int)r.action) + "," + fhex(r.duration_sec) + "," + fhex(r.target.x) + "," + fhex(r.target.y) + ","
                + fhex(r.target_altitude) + "," + fhex(r.pre_delay_sec) + "," + fhex(r.post_delay_sec) + "," + fhex(r.pre_neck_mm) + "," + fhex(r.pre_neck_duration_sec);
        }
    }
    sb_rth_plan_destroy(&plan);
    return out;
}

static std::string vec4hex(const sb_vector3_with_yaw_t& v)
{
    return fhex(v.x) + "," + fhex(v.y) + "," + fhex(v.z) + "," + fhex(v.yaw);
}

// traj <mode f|h> <hex> <queries>: f = a fresh player per query, h = one player (history);
// in h mode every answer is also compared bit for bit with a fresh player's
static std::string op_traj(const std::vector<std::string>& w)
{
    bool hist = w[1] == "h";
    bool empty = false;
    std::vector<uint8_t> b = unhex_or_empty(w[2], &empty);
    Guarded g(b);
    sb_trajectory_t tr;
    SBH_DIRTY(tr);
    sb_error_t e = empty ? sb_trajectory_init_empty(&tr) : sb_trajectory_init_from_buffer(&tr, g.ptr, g.n);
    if (e != SB_SUCCESS) {
        return "init:" + code(e);
    }
    std::string out = "init:0 scale=" + S((int)tr.scale) + " yaw=" + S(tr.use_yaw ? 1 : 0) + " start=" + vec4hex(tr.start);
    {
        // every way of asking for the total duration
        uint32_t d1 = sb_trajectory_get_total_duration_msec(&tr);
        float d1s = sb_trajectory_get_total_duration_sec(&tr);
        sb_trajectory_player_t pl;
        SBH_DIRTY(pl);
        uint32_t d2 = 0;
        sb_error_t e2 = sb_trajectory_player_init(&pl, &tr);
        if (e2 == SB_SUCCESS) {
            e2 = sb_trajectory_player_get_total_duration_msec(&pl, &d2);
            sb_trajectory_player_destroy(&pl);
        }
        sb_trajectory_stats_calculator_t calc;
        SBH_DIRTY(calc);
        sb_trajectory_stats_t st;
        SBH_DIRTY(st);
        memset(&st, 0, sizeof st);
        sb_trajectory_stats_calculator_init(&calc, 1.0f);
        sb_trajectory_stats_calculator_set_components(&calc, SB_TRAJECTORY_STATS_DURATION);
        sb_error_t e3 = sb_trajectory_stats_calculator_run(&calc, &tr, &st);
        sb_trajectory_stats_calculator_destroy(&calc);
        // the duration must not depend on which other components are computed in the same pass
        std::string masks = "same";
        for (int mask = 1; mask < 16 && e3 == SB_SUCCESS; mask += 2) {
            sb_trajectory_stats_calculator_t c2;
            SBH_DIRTY(c2);
            sb_trajectory_stats_t s2;
            memset(&s2, 0x5A, sizeof s2);
            sb_trajectory_stats_calculator_init(&c2, 1.0f);
            c2.min_ascent = 1.0f;
            sb_trajectory_stats_calculator_set_components(&c2, (sb_trajectory_stat_components_t)mask);
            sb_error_t e5 = sb_trajectory_stats_calculator_run(&c2, &tr, &s2);
            sb_trajectory_stats_calculator_destroy(&c2);
            if (e5 != SB_SUCCESS || s2.duration_msec != st.duration_msec || s2.duration_sec != st.duration_sec) {
                masks = "diff:" + S(mask) + ":" + code(e5) + ":" + U(s2.duration_msec);
                break;
            }
        }
        int nseg = 0;
        sb_error_t e4 = sb_trajectory_player_init(&pl, &tr);
        if (e4 == SB_SUCCESS) {
            e4 = sb_trajectory_player_rewind(&pl);
            while (e4 == SB_SUCCESS && sb_trajectory_player_has_more_segments(&pl)) {
                nseg++;
                e4 = sb_trajectory_player_build_next_segment(&pl);
            }
            sb_trajectory_player_destroy(&pl);
        }
        out += " dur=" + U(d1) + "," + fhex(d1s) + "," + code(e2) + "," + U(d2) + "," + code(e3) + "," + U(st.duration_msec) + "," + U(st.duration_sec) + "," + masks + " nseg=" + (e4 == SB_SUCCESS ? S(nseg) : code(e4));
    }
    sb_trajectory_player_t hp;
    SBH_DIRTY(hp);
    sb_error_t ehp = sb_trajectory_player_init(&hp, &tr);
    for (const std::string& q : csv(w[3])) {
        char kind = q[0];
        float t = f_of_hex(q.substr(1));
        sb_trajectory_player_t fp;
        SBH_DIRTY(fp);
        sb_error_t efp = sb_trajectory_player_init(&fp, &tr);
        if (efp != SB_SUCCESS || ehp != SB_SUCCESS) {
            // a player that could not be initialised is not queried
            out += std::string(" ") + kind + ":" + code(efp != SB_SUCCESS ? efp : ehp);
            if (hist) {
                out += (efp == ehp) ? ":=" : ":X";
            }
            continue;
        }
        sb_vector3_with_yaw_t vf, vh;
        memset(&vf, 0x5A, sizeof vf);
        memset(&vh, 0x5A, sizeof vh);
        sb_error_t ef, eh = SB_SUCCESS;
        if (kind == 'd') {
            // total duration asked of the player itself (fresh, and the one with the history)
            uint32_t df = 0, dh = 0;
            ef = sb_trajectory_player_get_total_duration_msec(&fp, &df);
            if (hist) eh = sb_trajectory_player_get_total_duration_msec(&hp, &dh);
            sb_error_t eu = hist ? eh : ef;
            out += std::string(" d:") + code(eu);
            if (eu == SB_SUCCESS) {
                out += ":" + U(hist ? dh : df);
            }
            if (hist) {
                out += (ef == eh && (ef != SB_SUCCESS || df == dh)) ? ":=" : ":X";
            }
            sb_trajectory_player_destroy(&fp);
            continue;
        }
        if (kind == 'p') {
            ef = sb_trajectory_player_get_position_at(&fp, t, &vf);
            if (hist) eh = sb_trajectory_player_get_position_at(&hp, t, &vh);
        } else if (kind == 'v') {
            ef = sb_trajectory_player_get_velocity_at(&fp, t, &vf);
            if (hist) eh = sb_trajectory_player_get_velocity_at(&hp, t, &vh);
        } else {
            ef = sb_trajectory_player_get_acceleration_at(&fp, t, &vf);
            if (hist) eh = sb_trajectory_player_get_acceleration_at(&hp, t, &vh);
        }
        const sb_trajectory_player_t* used = hist ? &hp : &fp;
        sb_error_t eu = hist ? eh : ef;
        const sb_vector3_with_yaw_t& vu = hist ? vh : vf;
        out += std::string(" ") + kind + ":" + code(eu);
        if (eu == SB_SUCCESS) {
            out += ":" + vec4hex(vu) + ":" + U(used->current_segment.start);
        }
        if (hist) {
            // C08: bit for bit the fresh answer, or (exactly at a boundary) the adjoining segment's
            if (ef != eh) {
                out += ":X";
            } else if (ef != SB_SUCCESS || memcmp(&vf, &vh, sizeof vf) == 0) {
                out += ":=";
            } else {
                float tt = t <= 0 ? 0 : t;
                bool hist_next = hp.current_segment.data.start_time_sec == tt && fp.current_segment.data.end_time_sec == tt;
                bool hist_prev = hp.current_segment.data.end_time_sec == tt && fp.current_segment.data.start_time_sec == tt;
                out += (hist_next || hist_prev) ? ":b" : ":X";
            }
        }
        sb_trajectory_player_destroy(&fp);
    }
    sb_trajectory_player_destroy(&hp);
    {
        sb_vector3_with_yaw_t v;
        e = sb_trajectory_get_start_position(&tr, &v);
        out += " s:" + code(e) + (e == SB_SUCCESS ? ":" + vec4hex(v) : "");
        e = sb_trajectory_get_end_position(&tr, &v);
        out += " e:" + code(e) + (e == SB_SUCCESS ? ":" + vec4hex(v) : "");
    }
    sb_trajectory_destroy(&tr);
    return out;
}

// yaw <mode f|h> <hex> <queries>: y = yaw, r = yaw rate, d = total duration
static std::string op_yaw(const std::vector<std::string>& w)
{
    bool hist = w[1] == "h";
    bool empty = false;
    std::vector<uint8_t> b = unhex_or_empty(w[2], &empty);
    Guarded g(b);
    sb_yaw_control_t yc;
    SBH_DIRTY(yc);
    sb_error_t e = empty ? sb_yaw_control_init_empty(&yc) : sb_yaw_control_init_from_buffer(&yc, g.ptr, g.n);
    if (e != SB_SUCCESS) {
        return "init:" + code(e);
    }
    sb_yaw_player_t hp;
    SBH_DIRTY(hp);
    sb_yaw_player_init(&hp, &yc);
    uint32_t dur = 0;
    {
        sb_yaw_player_t tp;
        SBH_DIRTY(tp);
        sb_yaw_player_init(&tp, &yc);
        sb_yaw_player_get_total_duration_msec(&tp, &dur);
        sb_yaw_player_destroy(&tp);
    }
    std::string out = "init:0 auto=" + S(yc.auto_yaw ? 1 : 0) + " off=" + S(yc.yaw_offset_ddeg) + " n=" + U(yc.num_deltas)
        + " empty=" + S(sb_yaw_control_is_empty(&yc) ? 1 : 0) + " dur=" + U(dur);
    for (const std::string& q : csv(w[3])) {
        char kind = q[0];
        float t = f_of_hex(q.substr(1));
        sb_yaw_player_t fp;
        SBH_DIRTY(fp);
        sb_yaw_player_init(&fp, &yc);
        float vf = -12345.0f, vh = -12345.0f;
        sb_error_t ef = SB_SUCCESS, eh = SB_SUCCESS;
        uint32_t df = 0, dh = 0;
        if (kind == 'y') {
            ef = sb_yaw_player_get_yaw_at(&fp, t, &vf);
            if (hist) eh = sb_yaw_player_get_yaw_at(&hp, t, &vh);
        } else if (kind == 'r') {
            ef = sb_yaw_player_get_yaw_rate_at(&fp, t, &vf);
            if (hist) eh = sb_yaw_player_get_yaw_rate_at(&hp, t, &vh);
        } else {
            ef = sb_yaw_player_get_total_duration_msec(&fp, &df);
            if (hist) eh = sb_yaw_player_get_total_duration_msec(&hp, &dh);
        }
        const sb_yaw_player_t* used = hist ? &hp : &fp;
        sb_error_t eu = hist ? eh : ef;
        float vu = hist ? vh : vf;
        out += std::string(" ") + kind + ":" + code(eu);
        if (eu == SB_SUCCESS) {
            if (kind == 'd') {
                out += ":" + U(hist ? dh : df);
            } else {
                out += ":" + fhex(vu) + ":" + U(used->current_setpoint.start);
            }
        }
        if (hist) {
            if (ef != eh) {
                out += ":X";
            } else if (kind == 'd') {
                out += (df == dh) ? ":=" : ":X";
            } else if (ef != SB_SUCCESS || memcmp(&vf, &vh, sizeof vf) == 0) {
                out += ":=";
            } else {
                float tt = t <= 0 ? 0 : t;
                bool hist_next = hp.current_setpoint.data.start_time_sec == tt && fp.current_setpoint.data.end_time_sec == tt;
                bool hist_prev = hp.current_setpoint.data.end_time_sec == tt && fp.current_setpoint.data.start_time_sec == tt;
                out += (hist_next || hist_prev) ? ":b" : ":X";
            }
        }
        sb_yaw_player_destroy(&fp);
    }
    sb_yaw_player_destroy(&hp);
    sb_yaw_control_destroy(&yc);
    return out;
}

// light <mode f|h> <hex> <queries>: c<t> colour, p<t> pyro mask, s<t> seek; t in decimal ms
// light x <hex> <queries>: one player with a history against a fresh player per query, C against C (for programs
// outside the domain of the model comparison, e.g. loops nested deeper than the format supports): '=' same answer, 'X' not
static std::string op_light_x(const std::string& hexprog, const std::string& queries)
{
    std::vector<uint8_t> b = unhex(hexprog);
    Guarded g(b);
    sb_light_program_t prog;
    SBH_DIRTY(prog);
    if (sb_light_program_init_from_buffer(&prog, g.ptr, g.n) != SB_SUCCESS) {
        return "init:e";
    }
    sb_light_player_t hp;
    SBH_DIRTY(hp);
    sb_light_player_init(&hp, &prog);
    std::string out;
    for (const std::string& q : csv(queries)) {
        char kind = q[0];
        unsigned long t = strtoul(q.c_str() + 1, 0, 10);
        sb_light_player_t fp;
        SBH_DIRTY(fp);
        sb_light_player_init(&fp, &prog);
        std::string a, c;
        if (kind == 'c') {
            sb_rgb_color_t x = sb_light_player_get_color_at(&hp, t), y = sb_light_player_get_color_at(&fp, t);
            a = S(x.red) + "," + S(x.green) + "," + S(x.blue);
            c = S(y.red) + "," + S(y.green) + "," + S(y.blue);
        } else if (kind == 'p') {
            a = S(sb_light_player_get_pyro_channels_at(&hp, t));
            c = S(sb_light_player_get_pyro_channels_at(&fp, t));
        } else {
            unsigned long n1 = 0, n2 = 0;
            sb_bool_t e1 = sb_light_player_seek(&hp, t, &n1), e2 = sb_light_player_seek(&fp, t, &n2);
            a = S(e1 ? 1 : 0);
            c = S(e2 ? 1 : 0);
        }
        out += (out.empty() ? "" : " ") + std::string(1, kind) + ":" + a + (a == c ? ":=" : ":X:" + c);
        sb_light_player_destroy(&fp);
    }
    sb_light_player_destroy(&hp);
    sb_light_program_destroy(&prog);
    return out;
}

static std::string op_light(bool hist, const std::string& hexprog, const std::string& queries)
{
    bool empty = false;
    std::vector<uint8_t> b = unhex_or_empty(hexprog, &empty);
    Guarded g(b);
    sb_light_program_t prog;
    SBH_DIRTY(prog);
    sb_error_t e = empty ? sb_light_program_init_empty(&prog) : sb_light_program_init_from_buffer(&prog, g.ptr, g.n);
    if (e != SB_SUCCESS) {
        return "init:" + code(e);
    }
    sb_light_player_t hp;
    SBH_DIRTY(hp);
    sb_light_player_init(&hp, &prog);
    std::string out;
    for (const std::string& q : csv(queries)) {
        char kind = q[0];
        unsigned long t = strtoul(q.c_str() + 1, 0, 10);
        sb_light_player_t fp;
        SBH_DIRTY(fp);
        sb_light_player_t* pl = &hp;
        if (!hist) {
            sb_light_player_init(&fp, &prog);
            pl = &fp;
        }
        if (!out.empty()) {
            out += " ";
        }
        if (kind == 'c') {
            sb_rgb_color_t c = sb_light_player_get_color_at(pl, t);
            out += "c:" + S(c.red) + "," + S(c.green) + "," + S(c.blue);
        } else if (kind == 'p') {
            out += "p:" + S(sb_light_player_get_pyro_channels_at(pl, t));
        } else {
            unsigned long next = 12345;
            sb_bool_t ended = sb_light_player_seek(pl, t, &next);
            out += "s:" + S(ended ? 1 : 0) + "," + U(next);
        }
        if (!hist) {
            sb_light_player_destroy(&fp);
        }
    }
    sb_light_player_destroy(&hp);
    sb_light_program_destroy(&prog);
    return out;
}

static std::vector<std::string> splitc(const std::string& s, char sep)
{
    std::vector<std::string> out;
    std::stringstream ss(s);
    std::string tok;
    while (std::getline(ss, tok, sep)) {
        out.push_back(tok);
    }
    return out;
}

static sb_vector3_with_yaw_t vec_of(const std::string& x, const std::string& y, const std::string& z, const std::string& w)
{
    sb_vector3_with_yaw_t v;
    v.x = f_of_hex(x);
    v.y = f_of_hex(y);
    v.z = f_of_hex(z);
    v.yaw = f_of_hex(w);
    return v;
}

// positions of a trajectory at the given times (ms): (float)ms / 1000.0f, fresh player each
static std::string probe_positions(sb_trajectory_t* tr, const std::vector<unsigned long>& marks)
{
    std::string out;
    for (unsigned long ms : marks) {
        sb_trajectory_player_t pl;
        SBH_DIRTY(pl);
        sb_vector3_with_yaw_t v;
        sb_error_t e = sb_trajectory_player_init(&pl, tr);
        if (e == SB_SUCCESS) {
            e = sb_trajectory_player_get_position_at(&pl, (float)ms / 1000.0f, &v);
            sb_trajectory_player_destroy(&pl);
        }
        out += " P:" + code(e);
        if (e == SB_SUCCESS) {
            out += ":" + vec4hex(v);
        }
    }
    return out;
}

// build <scale> <flags> <calls ;-separated>
static std::string op_build(const std::vector<std::string>& w)
{
    sb_trajectory_builder_t b;
    SBH_DIRTY(b);
    sb_error_t e = sb_trajectory_builder_init(&b, (uint8_t)atoi(w[1].c_str()), (uint8_t)atoi(w[2].c_str()));
    if (e != SB_SUCCESS) {
        return "init:" + code(e);
    }
    std::string out = "init:0";
    unsigned long cum = 0;
    std::vector<unsigned long> marks;
    for (const std::string& call : splitc(w[3], ';')) {
        std::vector<std::string> f = splitc(call, ':');
        if (f[0] == "S" && f.size() == 5) {
            e = sb_trajectory_builder_set_start_position(&b, vec_of(f[1], f[2], f[3], f[4]));
            out += " S:" + code(e) + ":" + U(sb_buffer_size(&b.buffer));
        } else if (f[0] == "L" && f.size() == 6) {
            unsigned long d = strtoul(f[5].c_str(), 0, 10);
            e = sb_trajectory_builder_append_line(&b, vec_of(f[1], f[2], f[3], f[4]), (uint32_t)d);
            out += " L:" + code(e) + ":" + U(sb_buffer_size(&b.buffer));
            if (e == SB_SUCCESS) {
                cum += d;
                marks.push_back(cum);
            }
        } else if (f[0] == "H" && f.size() == 2) {
            unsigned long d = strtoul(f[1].c_str(), 0, 10);
            e = sb_trajectory_builder_hold_position_for(&b, (uint32_t)d);
            out += " H:" + code(e) + ":" + U(sb_buffer_size(&b.buffer));
            if (e == SB_SUCCESS) {
                cum += d;
                marks.push_back(cum);
            }
        } else if (f[0] == "I" && f.size() == 2) {
            // re-initialising with an invalid scale is a call that reports an error: the builder stays as it is
            e = sb_trajectory_builder_init(&b, (uint8_t)atoi(f[1].c_str()), 0);
            out += " I:" + code(e) + ":" + (b.buffer.stor_begin ? U(sb_buffer_size(&b.buffer)) : std::string("nobuf"));
            if (b.buffer.stor_begin == 0) {
                return out + " buf:lost";
            }
        } else if (f[0] == "F") {
            sb_trajectory_t tr;
            SBH_DIRTY(tr);
            e = sb_trajectory_init_from_builder(&tr, &b);
            out += " F:" + code(e);
            if (e == SB_SUCCESS) {
                out += ":" + hex(SB_BUFFER(tr.buffer), sb_buffer_size(&tr.buffer));
                out += probe_positions(&tr, marks);
                sb_trajectory_destroy(&tr);
            }
            cum = 0;
            marks.clear();
        } else {
            out += " ?" + call;
        }
    }
    out += " buf:" + hex(SB_BUFFER(b.buffer), sb_buffer_size(&b.buffer));
    sb_trajectory_builder_destroy(&b);
    return out;
}

// rth2traj time action dur tx ty alt pre post neck neckd sx sy sz sw probes(ms csv)
static std::string op_rth2traj(const std::vector<std::string>& w)
{
    sb_rth_plan_entry_t en;
    SBH_DIRTY(en);
    memset(&en, 0, sizeof en);
    en.time_sec = f_of_hex(w[1]);
    en.action = (sb_rth_action_t)atoi(w[2].c_str());
    en.duration_sec = f_of_hex(w[3]);
    en.target.x = f_of_hex(w[4]);
    en.target.y = f_of_hex(w[5]);
    en.target_altitude = f_of_hex(w[6]);
    en.pre_delay_sec = f_of_hex(w[7]);
    en.post_delay_sec = f_of_hex(w[8]);
    en.pre_neck_mm = f_of_hex(w[9]);
    en.pre_neck_duration_sec = f_of_hex(w[10]);
    sb_vector3_with_yaw_t start = vec_of(w[11], w[12], w[13], w[14]);
    sb_trajectory_t tr;
    SBH_DIRTY(tr);
    sb_error_t e = sb_trajectory_init_from_rth_plan_entry(&tr, &en, start);
    if (e != SB_SUCCESS) {
        return code(e);
    }
    std::string out = "ok:" + hex(SB_BUFFER(tr.buffer), sb_buffer_size(&tr.buffer));
    out += " dur=" + U(sb_trajectory_get_total_duration_msec(&tr));
    std::vector<unsigned long> marks;
    for (const std::string& t : csv(w[15])) {
        marks.push_back(strtoul(t.c_str(), 0, 10));
    }
    out += probe_positions(&tr, marks);
    sb_trajectory_destroy(&tr);
    return out;
}

static std::string fnumhex(float f) { return fhex(f); }

static std::string op_util(const std::vector<std::string>& w)
{
    const std::string& k = w[1];
    if (k == "travel") {
        return fnumhex(sb_get_travel_time_for_distance(f_of_hex(w[2]), f_of_hex(w[3]), f_of_hex(w[4])));
    }
    if (k == "scale") {
        uint8_t sc = (uint8_t)atoi(w[2].c_str());
        sb_vector3_with_yaw_t v = vec_of(w[3], w[4], w[5], "00000000");
        sb_error_t e = sb_scale_update_vector3_with_yaw(&sc, v);
        return e == SB_SUCCESS ? S(sc) : code(e);
    }
    if (k == "msec") {
        uint32_t r = 0;
        sb_error_t e = sb_uint32_msec_duration_from_float_seconds(&r, f_of_hex(w[2]));
        return e == SB_SUCCESS ? U(r) : code(e);
    }
    if (k == "expand") {
        sb_interval_t iv;
        iv.min = f_of_hex(w[2]);
        iv.max = f_of_hex(w[3]);
        sb_interval_expand(&iv, f_of_hex(w[4]));
        return fhex(iv.min) + "," + fhex(iv.max);
    }
    if (k == "boxexpand") {
        sb_bounding_box_t bx;
        bx.x.min = f_of_hex(w[2]); bx.x.max = f_of_hex(w[3]);
        bx.y.min = f_of_hex(w[4]); bx.y.max = f_of_hex(w[5]);
        bx.z.min = f_of_hex(w[6]); bx.z.max = f_of_hex(w[7]);
        sb_bounding_box_expand(&bx, f_of_hex(w[8]));
        return fhex(bx.x.min) + "," + fhex(bx.x.max) + "," + fhex(bx.y.min) + "," + fhex(bx.y.max) + "," + fhex(bx.z.min) + "," + fhex(bx.z.max);
    }
    if (k == "scale1") {
        uint8_t sc = (uint8_t)atoi(w[2].c_str());
        sb_error_t e = sb_scale_update_altitude(&sc, f_of_hex(w[3]));
        return e == SB_SUCCESS ? S(sc) : code(e);
    }
    if (k == "scale2") {
        uint8_t sc = (uint8_t)atoi(w[2].c_str());
        sb_vector2_t v2; v2.x = f_of_hex(w[3]); v2.y = f_of_hex(w[4]);
        sb_error_t e = sb_scale_update_vector2(&sc, v2);
        return e == SB_SUCCESS ? S(sc) : code(e);
    }
    if (k == "rgbwtemp") {
        // reference colour given as a colour temperature: same as the reference-colour method with the colour
        // sb_rgb_color_from_color_temperature() returns; never above the original channels
        sb_rgb_color_t c = sb_rgb_color_make((uint8_t)atoi(w[2].c_str()), (uint8_t)atoi(w[3].c_str()), (uint8_t)atoi(w[4].c_str()));
        float t1 = f_of_hex(w[5]), t2 = f_of_hex(w[6]);
        sb_rgbw_conversion_t conv, conv2;
        memset(&conv, 0, sizeof conv);
        memset(&conv2, 0, sizeof conv2);
        sb_rgbw_conversion_use_color_temperature(&conv, t1);
        sb_rgbw_conversion_use_color_temperature(&conv, t2);      // re-configuring (same or other temperature)
        sb_rgb_color_t ref = sb_rgb_color_from_color_temperature(t2);
        sb_rgbw_conversion_use_reference_color(&conv2, ref);
        sb_rgbw_color_t o = sb_rgb_color_to_rgbw(c, conv), o2 = sb_rgb_color_to_rgbw(c, conv2);
        sb_rgbw_conversion_turn_off(&conv2);
        sb_rgbw_color_t o3 = sb_rgb_color_to_rgbw(c, conv2);
        std::string out = S(ref.red) + "," + S(ref.green) + "," + S(ref.blue) + " " + S(o.red) + "," + S(o.green) + "," + S(o.blue) + "," + S(o.white);
        out += sb_rgbw_color_equals(o, o2) ? " same" : " diff";
        out += (sb_rgbw_color_equals(o3, sb_rgbw_color_make(c.red, c.green, c.blue, 0)) && sb_rgbw_color_almost_equals(o3, o3, 0)
                && sb_rgb_color_equals(c, c) && sb_rgb_color_almost_equals(c, ref, 255)) ? " off-ok" : " off-bad";
        // a converter with a history (the same temperature again after every other way of configuring it) converts
        // like the fresh one
        bool hist = true;
        for (int h = 0; h < 4; h++) {
            sb_rgbw_conversion_t cv;
            memset(&cv, 0, sizeof cv);
            sb_rgbw_conversion_use_color_temperature(&cv, t2);
            if (h == 0) sb_rgbw_conversion_use_reference_color(&cv, sb_rgb_color_make(255, (uint8_t)(255 - c.green), c.blue));
            else if (h == 1) sb_rgbw_conversion_use_fixed_value(&cv, 7);
            else if (h == 2) sb_rgbw_conversion_use_min_subtraction(&cv);
            else sb_rgbw_conversion_turn_off(&cv);
            sb_rgbw_conversion_use_color_temperature(&cv, t2);
            if (!sb_rgbw_color_equals(sb_rgb_color_to_rgbw(c, cv), o2)) hist = false;
        }
        out += hist ? " hist-same" : " hist-diff";
        return out;
    }
    if (k == "interp") {
        sb_rgb_color_t a = sb_rgb_color_make((uint8_t)atoi(w[2].c_str()), (uint8_t)atoi(w[3].c_str()), (uint8_t)atoi(w[4].c_str()));
        sb_rgb_color_t b = sb_rgb_color_make((uint8_t)atoi(w[5].c_str()), (uint8_t)atoi(w[6].c_str()), (uint8_t)atoi(w[7].c_str()));
        sb_rgb_color_t c = sb_rgb_color_linear_interpolation(a, b, f_of_hex(w[8]));
        return S(c.red) + "," + S(c.green) + "," + S(c.blue);
    }
    if (k == "rgbw") {
        sb_rgb_color_t c = sb_rgb_color_make((uint8_t)atoi(w[3].c_str()), (uint8_t)atoi(w[4].c_str()), (uint8_t)atoi(w[5].c_str()));
        sb_rgbw_conversion_t conv;
        memset(&conv, 0, sizeof conv);
        if (w[2] == "min") {
            sb_rgbw_conversion_use_min_subtraction(&conv);
        } else if (w[2] == "fixed") {
            sb_rgbw_conversion_use_fixed_value(&conv, (uint8_t)atoi(w[6].c_str()));
        } else {
            sb_rgbw_conversion_use_reference_color(&conv, sb_rgb_color_make((uint8_t)atoi(w[6].c_str()), (uint8_t)atoi(w[7].c_str()), (uint8_t)atoi(w[8].c_str())));
        }
        sb_rgbw_color_t o = sb_rgb_color_to_rgbw(c, conv);
        return S(o.red) + "," + S(o.green) + "," + S(o.blue) + "," + S(o.white);
    }
    if (k == "buf") {
        sb_buffer_t b;
        SBH_DIRTY(b);
        sb_error_t e = SB_SUCCESS;
        std::vector<uint8_t> init;
        uint8_t* owned_copy = 0;
        Guarded* view = 0;
        if (w[2] == "init") {
            e = sb_buffer_init(&b, strtoul(w[3].c_str(), 0, 10));
        } else if (w[2] == "bytes") {
            init = unhex(w[3]);
            owned_copy = (uint8_t*)malloc(init.size() ? init.size() : 1);
            memcpy(owned_copy, init.data(), init.size());
            e = sb_buffer_init_from_bytes(&b, owned_copy, init.size());
            if (e != SB_SUCCESS) {
                free(owned_copy);
            }
        } else {
            init = unhex(w[3]);
            view = new Guarded(init);
            sb_buffer_init_view(&b, view->ptr, view->n);
        }
        if (e != SB_SUCCESS) {
            return "init:" + code(e);
        }
        auto st = [&]() { return U(sb_buffer_size(&b)) + "/" + U(sb_buffer_capacity(&b)); };
        std::string out = "init:0:" + st();
        for (const std::string& op : csv(w[4])) {
            if (op.empty() || op == "-") {
                continue;
            }
            std::string arg = op.substr(1);
            sb_error_t r = SB_SUCCESS;
            switch (op[0]) {
            case 'a': {
                std::vector<uint8_t> d = unhex(arg);
                r = sb_buffer_append_bytes(&b, d.data(), d.size());
                break;
            }
            case 'b':
                r = sb_buffer_append_byte(&b, (uint8_t)atoi(arg.c_str()));
                break;
            case 'k': {
                std::vector<uint8_t> d = unhex(arg);
                Guarded og(d);
                sb_buffer_t other;
                SBH_DIRTY(other);
                sb_buffer_init_view(&other, og.ptr, og.n);
                r = sb_buffer_concat(&b, &other);
                sb_buffer_destroy(&other);
                break;
            }
            case 'z':
                r = sb_buffer_extend_with_zeros(&b, strtoul(arg.c_str(), 0, 10));
                break;
            case 'r':
                r = sb_buffer_resize(&b, strtoul(arg.c_str(), 0, 10));
                break;
            case 'c':
                r = sb_buffer_clear(&b);
                break;
            case 'p':
                r = sb_buffer_prune(&b);
                break;
            default:
                sb_buffer_fill(&b, (uint8_t)atoi(arg.c_str()));
            }
            out += std::string(" ") + op[0] + ":" + code(r) + ":" + st();
        }
        out += " data:" + hex(SB_BUFFER(b), sb_buffer_size(&b));
        sb_buffer_destroy(&b);
        if (view) {
            delete view;
        }
        return out;
    }
    if (k == "fop") {
        volatile float a = f_of_hex(w[3]), b = f_of_hex(w[4]);
        volatile float r;
        if (w[2] == "add") r = a + b;
        else if (w[2] == "sub") r = a - b;
        else if (w[2] == "mul") r = a * b;
        else if (w[2] == "div") r = a / b;
        else r = sqrtf(a);
        return fhex(r);
    }
    return "bad-args";
}

static std::string op_stats(const std::vector<std::string>& w)
{
    std::vector<uint8_t> b = unhex(w[2]);
    Guarded g(b);
    sb_trajectory_t tr;
    SBH_DIRTY(tr);
    sb_error_t e = sb_trajectory_init_from_buffer(&tr, g.ptr, g.n);
    if (e != SB_SUCCESS) {
        return "init:" + code(e);
    }
    std::string out;
    if (w[1] == "takeoff") {
        float ascent = f_of_hex(w[3]), speed = f_of_hex(w[4]), acc = f_of_hex(w[5]);
        float t = sb_trajectory_propose_takeoff_time_sec(&tr, ascent, speed, acc);
        // the one-pass statistics interface with the same parameters
        sb_trajectory_stats_calculator_t calc;
        SBH_DIRTY(calc);
        sb_trajectory_stats_t st;
        SBH_DIRTY(st);
        memset(&st, 0x5A, sizeof st);
        sb_trajectory_stats_calculator_init(&calc, 1.0f);
        calc.acceleration = acc;
        calc.takeoff_speed = speed;
        calc.min_ascent = ascent;
        sb_error_t e2 = sb_trajectory_stats_calculator_run(&calc, &tr, &st);
        out = "takeoff=" + fhex(t) + " stats=" + code(e2);
        if (e2 == SB_SUCCESS) {
            out += ":" + fhex(st.takeoff_time_sec) + ":" + fhex(st.earliest_above_sec);
            // the takeoff fields must not depend on which other components are computed in the same pass
            std::string masks = "same";
            for (int mask = 4; mask < 16; mask++) {
                if (!(mask & 4)) continue;
                sb_trajectory_stats_t s2;
                memset(&s2, 0x5A, sizeof s2);
                sb_trajectory_stats_calculator_set_components(&calc, (sb_trajectory_stat_components_t)mask);
                sb_error_t e5 = sb_trajectory_stats_calculator_run(&calc, &tr, &s2);
                if (e5 != SB_SUCCESS || memcmp(&s2.takeoff_time_sec, &st.takeoff_time_sec, 4) != 0 || memcmp(&s2.earliest_above_sec, &st.earliest_above_sec, 4) != 0) {
                    masks = "diff:" + S(mask) + ":" + code(e5) + ":" + fhex(s2.takeoff_time_sec);
                    break;
                }
            }
            out += " masks=" + masks;
        }
        sb_trajectory_stats_calculator_destroy(&calc);
    } else if (w[1] == "landing") {
        float descent = f_of_hex(w[3]), thr = f_of_hex(w[4]);
        float t = sb_trajectory_propose_landing_time_sec(&tr, descent, thr);
        sb_trajectory_stats_calculator_t calc;
        SBH_DIRTY(calc);
        sb_trajectory_stats_t st;
        SBH_DIRTY(st);
        memset(&st, 0x5A, sizeof st);
        sb_trajectory_stats_calculator_init(&calc, 1.0f);
        calc.preferred_descent = descent;
        calc.verticality_threshold = thr;
        sb_error_t e2 = sb_trajectory_stats_calculator_run(&calc, &tr, &st);
        out = "landing=" + fhex(t) + " stats=" + code(e2);
        if (e2 == SB_SUCCESS) {
            out += ":" + fhex(st.landing_time_sec);
        }
        out += " total=" + U(sb_trajectory_get_total_duration_msec(&tr));
        if (e2 == SB_SUCCESS) {
            // the landing time must not depend on which other components are computed in the same pass
            std::string masks = "same";
            for (int mask = 8; mask < 16; mask++) {
                sb_trajectory_stats_t s2;
                memset(&s2, 0x5A, sizeof s2);
                sb_trajectory_stats_calculator_set_components(&calc, (sb_trajectory_stat_components_t)mask);
                sb_error_t e5 = sb_trajectory_stats_calculator_run(&calc, &tr, &s2);
                if (e5 != SB_SUCCESS || memcmp(&s2.landing_time_sec, &st.landing_time_sec, 4) != 0) {
                    masks = "diff:" + S(mask) + ":" + code(e5) + ":" + fhex(s2.landing_time_sec);
                    break;
                }
            }
            out += " masks=" + masks;
        }
        sb_trajectory_stats_calculator_destroy(&calc);
    } else {
        sb_bounding_box_t bb;
        memset(&bb, 0x5A, sizeof bb);
        e = sb_trajectory_get_axis_aligned_bounding_box(&tr, &bb);
        out = "bbox=" + code(e);
        if (e == SB_SUCCESS) {
            out += ":" + fhex(bb.x.min) + "," + fhex(bb.x.max) + "," + fhex(bb.y.min) + "," + fhex(bb.y.max) + "," + fhex(bb.z.min) + "," + fhex(bb.z.max);
        }
        // the same through the two loading routes is C06's business
    }
    sb_trajectory_destroy(&tr);
    return out;
}

static sb_poly_t poly_of(const std::string& s)
{
    std::vector<std::string> t = csv(s);
    float xs[SB_MAX_POLY_COEFFS];
    size_t n = 0;
    for (; n < t.size() && n < SB_MAX_POLY_COEFFS; n++) {
        xs[n] = f_of_hex(t[n]);
    }
    sb_poly_t p;
    sb_poly_make(&p, xs, (uint8_t)n);
    return p;
}

static std::string poly_coeffs(const sb_poly_t& p)
{
    std::string out = "c=";
    if (p.num_coeffs == 0) {
        return out + "-";
    }
    for (int i = 0; i < p.num_coeffs; i++) {
        out += (i ? "," : "") + fhex(p.coeffs[i]);
    }
    return out;
}

static std::string op_poly(const std::vector<std::string>& w)
{
    const std::string& k = w[1];
    if (k == "bezier") {
        std::vector<std::string> t = csv(w[3]);
        float xs[16];
        size_t n = 0;
        for (; n < t.size() && n < 16; n++) {
            xs[n] = f_of_hex(t[n]);
        }
        // (the object has been used before: the constructors define every coefficient they count)
        static float used[8] = { 7.5f, -1234.25f, 3e5f, 11.0f, -2.0f, 9.0f, 1.0f, 4.0f };
        sb_poly_t p;
        sb_poly_make(&p, used, 8);
        sb_poly_make_bezier(&p, f_of_hex(w[2]), xs, (uint8_t)n);
        std::string out = poly_coeffs(p) + " v=";
        std::vector<std::string> us = csv(w[4]);
        for (size_t i = 0; i < us.size(); i++) {
            out += (i ? "," : "") + fhex(sb_poly_eval(&p, f_of_hex(us[i])));
        }
        if (us.empty()) {
            out += "-";
        }
        out += " deg=" + S(sb_poly_get_degree(&p));
        // the fixed-arity constructors must build the same polynomial (bit for bit)
        if (n <= 4) {
            sb_poly_t q;
            sb_poly_make(&q, used, 8);
            float d = f_of_hex(w[2]);
            switch (n) {
            case 0: sb_poly_make_zero(&q); break;
            case 1: sb_poly_make_constant(&q, xs[0]); break;
            case 2: sb_poly_make_linear(&q, d, xs[0], xs[1]); break;
            case 3: sb_poly_make_quadratic_bezier(&q, d, xs[0], xs[1], xs[2]); break;
            default: sb_poly_make_cubic_bezier(&q, d, xs[0], xs[1], xs[2], xs[3]); break;
            }
            bool same = q.num_coeffs == p.num_coeffs && memcmp(q.coeffs, p.coeffs, p.num_coeffs * sizeof(float)) == 0;
            out += same ? " alt=same" : " alt=diff:" + poly_coeffs(q);
        }
        return out;
    }
    if (k == "4d") {
        // sb_poly_4d_*: component-wise application of the 1-D functions (C against C, bit for bit)
        sb_poly_4d_t q;
        sb_poly_t c[4] = { poly_of(w[2]), poly_of(w[3]), poly_of(w[4]), poly_of(w[5]) };
        float kf = f_of_hex(w[6]), u = f_of_hex(w[7]);
        std::string bad;
        auto load = [&]() { q.x = c[0]; q.y = c[1]; q.z = c[2]; q.yaw = c[3]; };
        auto eq = [&](const sb_poly_t& a, const sb_poly_t& b) { return a.num_coeffs == b.num_coeffs && memcmp(a.coeffs, b.coeffs, a.num_coeffs * sizeof(float)) == 0; };
        auto feq = [&](float a, float b) { return memcmp(&a, &b, 4) == 0 || (a != a && b != b); };
        load();
        sb_vector3_with_yaw_t v = sb_poly_4d_eval(&q, u);
        if (!feq(v.x, sb_poly_eval(&c[0], u)) || !feq(v.y, sb_poly_eval(&c[1], u)) || !feq(v.z, sb_poly_eval(&c[2], u)) || !feq(v.yaw, sb_poly_eval(&c[3], u))) {
            bad += " eval:" + vec4hex(v);
        }
        sb_poly_4d_deriv(&q);
        sb_poly_t d[4] = { c[0], c[1], c[2], c[3] };
        for (int i = 0; i < 4; i++) sb_poly_deriv(&d[i]);
        if (!eq(q.x, d[0]) || !eq(q.y, d[1]) || !eq(q.z, d[2]) || !eq(q.yaw, d[3])) bad += " deriv";
        load();
        sb_poly_4d_scale(&q, kf);
        for (int i = 0; i < 4; i++) { d[i] = c[i]; sb_poly_scale(&d[i], kf); }
        if (!eq(q.x, d[0]) || !eq(q.y, d[1]) || !eq(q.z, d[2]) || !eq(q.yaw, d[3])) bad += " scale";
        sb_vector3_with_yaw_t cv; cv.x = kf; cv.y = u; cv.z = -kf; cv.yaw = 2 * u;
        sb_poly_4d_make_constant(&q, cv);
        v = sb_poly_4d_eval(&q, 0.37f);
        if (!feq(v.x, cv.x) || !feq(v.y, cv.y) || !feq(v.z, cv.z) || !feq(v.yaw, cv.yaw) || q.x.num_coeffs != 1 || q.yaw.num_coeffs != 1) bad += " const:" + vec4hex(v);
        sb_poly_4d_make_zero(&q);
        v = sb_poly_4d_eval(&q, 0.37f);
        if (v.x != 0 || v.y != 0 || v.z != 0 || v.yaw != 0) bad += " zero:" + vec4hex(v);
        return bad.empty() ? "4d=same" : "4d=diff" + bad;
    }
    if (k == "nullargs") {
        // optional output arguments: the answers that are still delivered must not change
        sb_poly_t p = poly_of(w[2]);
        float y = f_of_hex(w[3]);
        float r0[8], r1[8];
        uint8_t n0 = 99, n1 = 99;
        for (int i = 0; i < 8; i++) { r0[i] = r1[i] = NAN; }
        sb_error_t e0 = sb_poly_solve(&p, y, r0, &n0);
        sb_error_t e1 = sb_poly_solve(&p, y, 0, &n1);
        sb_error_t e2 = sb_poly_solve(&p, y, r1, 0);
        sb_error_t e3 = sb_poly_solve(&p, y, 0, 0);
        std::string bad;
        if (e1 != e0 || (e0 == SB_SUCCESS && n1 != n0)) bad += " solve-noroots:" + code(e1) + ":" + S(n1);
        if (e2 != e0) bad += " solve-nocount:" + code(e2);
        if (e0 == SB_SUCCESS && e2 == SB_SUCCESS) {
            for (int i = 0; i < n0 && i < 8; i++) {
                if (memcmp(&r0[i], &r1[i], 4) != 0) { bad += " solve-nocount-root" + S(i); break; }
            }
        }
        if (e3 != e0) bad += " solve-none:" + code(e3);
        float tr = NAN;
        sb_bool_t t0 = sb_poly_touches(&p, y, &tr);
        sb_bool_t t1 = sb_poly_touches(&p, y, 0);
        if ((t0 ? 1 : 0) != (t1 ? 1 : 0)) bad += " touches-null";
        sb_interval_t iv; iv.min = iv.max = NAN;
        sb_error_t x0 = sb_poly_get_extrema(&p, &iv);
        sb_error_t x1 = sb_poly_get_extrema(&p, 0);
        if (x0 != x1) bad += " extrema-null:" + code(x1);
        return bad.empty() ? "null=same" : "null=diff" + bad;
    }
    if (k == "eval") {
        sb_poly_t p = poly_of(w[2]);
        std::string out = "v=";
        std::vector<std::string> us = csv(w[3]);
        for (size_t i = 0; i < us.size(); i++) {
            out += (i ? "," : "") + fhex(sb_poly_eval(&p, f_of_hex(us[i])));
        }
        // the double-precision evaluator must agree with the float one up to float rounding
        out += " d=";
        for (size_t i = 0; i < us.size(); i++) {
            out += (i ? "," : "") + fhex((float)sb_poly_eval_double(&p, (double)f_of_hex(us[i])));
        }
        return out;
    }
    if (k == "deriv" || k == "scale" || k == "stretch" || k == "addc") {
        sb_poly_t p = poly_of(w[2]);
        if (k == "deriv") {
            sb_poly_deriv(&p);
        } else if (k == "scale") {
            sb_poly_scale(&p, f_of_hex(w[3]));
        } else if (k == "stretch") {
            sb_poly_stretch(&p, f_of_hex(w[3]));
        } else {
            sb_poly_add_constant(&p, f_of_hex(w[3]));
        }
        return poly_coeffs(p);
    }
    if (k == "solve" || k == "solve32") {
        sb_poly_t p = poly_of(w[2]);
        float roots[8];
        uint8_t n = 99;
        for (int i = 0; i < 8; i++) {
            roots[i] = NAN;
        }
        sb_error_t e = sb_poly_solve(&p, f_of_hex(w[3]), roots, &n);
        std::string out = "solve=" + code(e);
        if (e == SB_SUCCESS) {
            out += ":" + S(n);
            for (int i = 0; i < n && i < 8; i++) {
                out += ":" + fhex(roots[i]);
            }
        }
        return out;
    }
    if (k == "touches") {
        sb_poly_t p = poly_of(w[2]);
        float r = NAN;
        sb_bool_t t = sb_poly_touches(&p, f_of_hex(w[3]), &r);
        return "touches=" + S(t ? 1 : 0) + (t ? ":" + fhex(r) : "");
    }
    if (k == "touchend") {
        // the values the library's own evaluation gives at the two ends of [0,1] are taken in [0,1]
        sb_poly_t p = poly_of(w[2]);
        float y0 = sb_poly_eval(&p, 0.0f), y1 = sb_poly_eval(&p, 1.0f);
        float r0 = NAN, r1 = NAN;
        sb_bool_t t0 = sb_poly_touches(&p, y0, &r0);
        sb_bool_t t1 = sb_poly_touches(&p, y1, &r1);
        return "te=" + S(t0 ? 1 : 0) + ":" + S(t1 ? 1 : 0) + " y=" + fhex(y0) + ":" + fhex(y1) + " r=" + fhex(r0) + ":" + fhex(r1);
    }
    if (k == "extrema") {
        sb_poly_t p = poly_of(w[2]);
        sb_interval_t iv;
        iv.min = NAN;
        iv.max = NAN;
        sb_error_t e = sb_poly_get_extrema(&p, &iv);
        return "extrema=" + code(e) + ":" + fhex(iv.min) + ":" + fhex(iv.max);
    }
    return "bad-args";
}

// ---- C06 / C03: both loading routes, a fixed battery of every public query, and clearing
static const float BATTERY_T[] = { -1.0f, 0.0f, 0.5f, 1.0f, 2.5f, 10.0f, 100.0f, 1e9f, INFINITY };
static const unsigned long BATTERY_MS[] = { 0, 1, 20, 500, 1000, 5000, 60000 };

static std::string obs_traj(sb_trajectory_t* t)
{
    std::string o = "E" + S(sb_trajectory_is_empty(t) ? 1 : 0) + " D" + U(sb_trajectory_get_total_duration_msec(t)) + ":" + fhex(sb_trajectory_get_total_duration_sec(t));
    sb_trajectory_player_t pl;
    SBH_DIRTY(pl);
    sb_error_t e = sb_trajectory_player_init(&pl, t);
    o += " I" + code(e);
    if (e == SB_SUCCESS) {
        for (float tt : BATTERY_T) {
            sb_vector3_with_yaw_t v;
            e = sb_trajectory_player_get_position_at(&pl, tt, &v);
            o += " p" + code(e) + (e ? "" : ":" + vec4hex(v));
            e = sb_trajectory_player_get_velocity_at(&pl, tt, &v);
            o += " v" + code(e) + (e ? "" : ":" + vec4hex(v));
            e = sb_trajectory_player_get_acceleration_at(&pl, tt, &v);
            o += " a" + code(e) + (e ? "" : ":" + vec4hex(v));
        }
        uint32_t d = 0;
        e = sb_trajectory_player_get_total_duration_msec(&pl, &d);
        o += " d" + code(e) + ":" + U(d);
        sb_trajectory_player_destroy(&pl);
    }
    sb_vector3_with_yaw_t v;
    e = sb_trajectory_get_start_position(t, &v);
    o += " s" + code(e) + (e ? "" : ":" + vec4hex(v));
    e = sb_trajectory_get_end_position(t, &v);
    o += " e" + code(e) + (e ? "" : ":" + vec4hex(v));
    sb_bounding_box_t bb;
    memset(&bb, 0, sizeof bb);
    e = sb_trajectory_get_axis_aligned_bounding_box(t, &bb);
    // the box of degree-7 axes is left unset by the library (finding D13): not part of the route comparison
    o += " b" + code(e);
    o += " T" + fhex(sb_trajectory_propose_takeoff_time_sec(t, 2.5f, 2.0f, 4.0f));
    o += " L" + fhex(sb_trajectory_propose_landing_time_sec(t, 2.5f, 0.05f));
    return o;
}

static std::string obs_light(sb_light_program_t* p)
{
    std::string o;
    sb_light_player_t pl;
    SBH_DIRTY(pl);
    sb_error_t e = sb_light_player_init(&pl, p);
    o += "I" + code(e);
    if (e == SB_SUCCESS) {
        for (unsigned long ms : BATTERY_MS) {
            sb_rgb_color_t c = sb_light_player_get_color_at(&pl, ms);
            o += " c" + S(c.red) + "," + S(c.green) + "," + S(c.blue);
            o += " y" + S(sb_light_player_get_pyro_channels_at(&pl, ms));
        }
        unsigned long nx = 0;
        sb_bool_t en = sb_light_player_seek(&pl, 777, &nx);
        o += " s" + S(en ? 1 : 0) + "," + U(nx);
        sb_light_player_destroy(&pl);
    }
    return o;
}

static std::string obs_yaw(sb_yaw_control_t* y)
{
    std::string o = "E" + S(sb_yaw_control_is_empty(y) ? 1 : 0) + " n" + U(y->num_deltas) + " a" + S(y->auto_yaw ? 1 : 0) + " o" + S(y->yaw_offset_ddeg);
    sb_yaw_player_t pl;
    SBH_DIRTY(pl);
    sb_error_t e = sb_yaw_player_init(&pl, y);
    o += " I" + code(e);
    if (e == SB_SUCCESS) {
        for (float tt : BATTERY_T) {
            float v = 0;
            e = sb_yaw_player_get_yaw_at(&pl, tt, &v);
            o += " y" + code(e) + (e ? "" : ":" + fhex(v));
            e = sb_yaw_player_get_yaw_rate_at(&pl, tt, &v);
            o += " r" + code(e) + (e ? "" : ":" + fhex(v));
        }
        uint32_t d = 0;
        e = sb_yaw_player_get_total_duration_msec(&pl, &d);
        o += " d" + code(e) + ":" + U(d);
        sb_yaw_player_destroy(&pl);
    }
    return o;
}

static std::string obs_rth(sb_rth_plan_t* p)
{
    std::string o = "E" + S(sb_rth_plan_is_empty(p) ? 1 : 0) + " n" + U(sb_rth_plan_get_num_entries(p)) + " m" + U(sb_rth_plan_get_num_points(p));
    for (size_t i = 0; i < 3; i++) {
        sb_vector2_t pt;
        sb_error_t e = sb_rth_plan_get_point(p, i, &pt);
        o += " P" + code(e) + (e ? "" : ":" + fhex(pt.x) + "," + fhex(pt.y));
    }
    const float ts[] = { -1.0f, 0.0f, 5.0f, 100.0f, 1e9f, INFINITY };
    for (float tt : ts) {
        sb_rth_plan_entry_t en;
        SBH_DIRTY(en);
        memset(&en, 0, sizeof en);
        sb_error_t e = sb_rth_plan_evaluate_at(p, tt, &en);
        o += " q" + code(e);
        if (e == SB_SUCCESS) {
            o += ":" + fhex(en.time_sec) + "," + S((int)en.action) + "," + fhex(en.duration_sec) + "," + fhex(en.target.x) + "," + fhex(en.target.y) + "," + fhex(en.target_altitude) + ","
                + fhex(en.pre_delay_sec) + "," + fhex(en.post_delay_sec) + "," + fhex(en.pre_neck_mm) + "," + fhex(en.pre_neck_duration_sec);
            // the entry converts to a trajectory
            sb_trajectory_t tr;
            SBH_DIRTY(tr);
            sb_vector3_with_yaw_t st = { 100.0f, 200.0f, 1000.0f, 0.0f };
            sb_error_t e2 = sb_trajectory_init_from_rth_plan_entry(&tr, &en, st);
            o += "/" + code(e2);
            if (e2 == SB_SUCCESS) {
                o += ":" + U(sb_trajectory_get_total_duration_msec(&tr));
                sb_trajectory_destroy(&tr);
            }
        }
    }
    return o;
}

// routes <kind> <hex>: load through a descriptor and from memory, compare every observation
static std::string op_routes(const std::vector<std::string>& w)
{
    const std::string& kind = w[1];
    std::vector<uint8_t> b = unhex(w[2]);
    std::string obs[2], blk[2];
    sb_error_t err[2];
    for (int r = 0; r < 2; r++) {
        Guarded g(b);
        int fd = r == 0 ? make_fd(b) : -1;
        // "fd0": the show is on descriptor 0 (the harness's own standard input is put aside for the duration of the
        // calls; nothing reads the case stream meanwhile)
        int saved0 = -1;
        if (r == 0 && w.size() > 3 && w[3] == "fd0") {
            saved0 = dup(0);
            dup2(fd, 0);
            close(fd);
            fd = 0;
        }
        sb_error_t e;
        std::string o;
        if (kind == "traj") {
            sb_trajectory_t t;
            SBH_DIRTY(t);
            e = r == 0 ? sb_trajectory_init_from_binary_file(&t, fd) : sb_trajectory_init_from_binary_file_in_memory(&t, g.ptr, g.n);
            if (e == SB_SUCCESS) {
                blk[r] = hex(SB_BUFFER(t.buffer), sb_buffer_size(&t.buffer));
                o = obs_traj(&t);
                sb_error_t ec = sb_trajectory_clear(&t);
                o += " | clear" + code(ec) + " " + obs_traj(&t);
                sb_trajectory_destroy(&t);
#if SBH_WRAP
                // the same with no memory to be had during the clear: clearing needs none on either route
                // (a fresh copy of the bytes: clearing a view writes into the caller's image)
                Guarded g2(b);
                int fd2 = r == 0 ? make_fd(b) : -1;
                sb_trajectory_t t2;
                SBH_DIRTY(t2);
                if ((r == 0 ? sb_trajectory_init_from_binary_file(&t2, fd2) : sb_trajectory_init_from_binary_file_in_memory(&t2, g2.ptr, g2.n)) == SB_SUCCESS) {
                    aw_fail_next_plain(1000);
                    ec = sb_trajectory_clear(&t2);
                    aw_fail_next_plain(0);
                    o += " | nomem-clear" + code(ec) + " " + obs_traj(&t2);
                    sb_trajectory_destroy(&t2);
                }
                if (fd2 >= 0) { close(fd2); }
#endif
            }
        } else if (kind == "light") {
            sb_light_program_t t;
            SBH_DIRTY(t);
            e = r == 0 ? sb_light_program_init_from_binary_file(&t, fd) : sb_light_program_init_from_binary_file_in_memory(&t, g.ptr, g.n);
            if (e == SB_SUCCESS) {
                blk[r] = hex(SB_BUFFER(t.buffer), sb_buffer_size(&t.buffer));
                o = obs_light(&t);
                sb_light_program_clear(&t);
                o += " | clear " + obs_light(&t);
                sb_light_program_destroy(&t);
#if SBH_WRAP
                Guarded g2(b);
                int fd2 = r == 0 ? make_fd(b) : -1;
                sb_light_program_t t2;
                SBH_DIRTY(t2);
                if ((r == 0 ? sb_light_program_init_from_binary_file(&t2, fd2) : sb_light_program_init_from_binary_file_in_memory(&t2, g2.ptr, g2.n)) == SB_SUCCESS) {
                    aw_fail_next_plain(1000);
                    sb_light_program_clear(&t2);
                    aw_fail_next_plain(0);
                    o += std::string(" | nomem-clear buf=") + (SB_BUFFER(t2.buffer) ? "set" : "null") + ":" + U(sb_buffer_size(&t2.buffer)) + " " + obs_light(&t2);
                    sb_light_program_destroy(&t2);
                }
                if (fd2 >= 0) { close(fd2); }
#endif
            }
        } else if (kind == "yaw") {
            sb_yaw_control_t t;
            SBH_DIRTY(t);
            e = r == 0 ? sb_yaw_control_init_from_binary_file(&t, fd) : sb_yaw_control_init_from_binary_file_in_memory(&t, g.ptr, g.n);
            if (e == SB_SUCCESS) {
                blk[r] = hex(SB_BUFFER(t.buffer), sb_buffer_size(&t.buffer));
                o = obs_yaw(&t);
                sb_yaw_control_destroy(&t);
            }
        } else {
            sb_rth_plan_t t;
            SBH_DIRTY(t);
            e = r == 0 ? sb_rth_plan_init_from_binary_file(&t, fd) : sb_rth_plan_init_from_binary_file_in_memory(&t, g.ptr, g.n);
            if (e == SB_SUCCESS) {
                blk[r] = hex(t.buffer, t.buffer_length);
                o = obs_rth(&t);
                sb_rth_plan_destroy(&t);
            }
        }
        err[r] = e;
        obs[r] = o;
        if (fd >= 0) {
            close(fd);
        }
        if (saved0 >= 0) {
            dup2(saved0, 0);
            close(saved0);
        }
    }
    if (err[0] != SB_SUCCESS && err[1] != SB_SUCCESS) {
        return "fail:" + S(err[0]) + ":" + S(err[1]);
    }
    if (err[0] != SB_SUCCESS || err[1] != SB_SUCCESS) {
        return "MISMATCH:fd=" + S(err[0]) + ":mem=" + S(err[1]);
    }
    if (blk[0] != blk[1]) {
        return "ok:" + U(blk[0] == "-" ? 0 : blk[0].size() / 2) + ":blockdiff";
    }
    std::string res = "ok:" + U(blk[0] == "-" ? 0 : blk[0].size() / 2) + ":";
    if (obs[0] == obs[1]) {
        return res + "same";
    }
    // first differing token
    std::vector<std::string> a = split(obs[0]), c = split(obs[1]);
    for (size_t i = 0; i < a.size() && i < c.size(); i++) {
        if (a[i] != c[i]) {
            return res + "diff@" + S((long long)i) + ":fd=" + a[i] + ":mem=" + c[i];
        }
    }
    return res + "diff@len";
}

static std::string op_crc(const std::vector<std::string>& w)
{
    // crc <init> <hex> <split points, csv or ->: successive calls on the pieces
    uint32_t crc = (uint32_t)strtoul(w[1].c_str(), 0, 10);
    std::vector<uint8_t> b = unhex(w[2]);
    std::vector<size_t> cuts;
    if (w.size() > 3 && w[3] != "-") {
        std::stringstream ss(w[3]);
        std::string tok;
        while (std::getline(ss, tok, ',')) {
            cuts.push_back(strtoul(tok.c_str(), 0, 10));
        }
    }
    cuts.push_back(b.size());
    size_t pos = 0;
    for (size_t c : cuts) {
        if (c < pos || c > b.size()) {
            continue;
        }
        std::vector<uint8_t> piece(b.begin() + pos, b.begin() + c);
        Guarded g(piece);
        crc = sb_ap_crc32_update(crc, g.ptr, (uint32_t)g.n);
        pos = c;
    }
    return "ok " + U(crc);
}

// ---------------------------------------------------------------- C17: allocation discipline
#if SBH_WRAP
#include <new>
extern "C" {
void aw_reset(long fail_at);
void aw_track(int on);
const char* aw_events(void);
int aw_bad_events(void);
size_t aw_live(void);
void aw_release_leaks(void);
void* aw_caller_alloc(size_t n);
void* aw_new(size_t n);
void aw_delete(void* p);
}
void* operator new(size_t n)
{
    void* p = aw_new(n);
    if (!p) {
        throw std::bad_alloc();
    }
    return p;
}
void* operator new[](size_t n) { return operator new(n); }
void* operator new(size_t n, const std::nothrow_t&) noexcept { return aw_new(n); }
void* operator new[](size_t n, const std::nothrow_t&) noexcept { return aw_new(n); }
void operator delete(void* p) noexcept { aw_delete(p); }
void operator delete[](void* p) noexcept { aw_delete(p); }
void operator delete(void* p, size_t) noexcept { aw_delete(p); }
void operator delete[](void* p, size_t) noexcept { aw_delete(p); }
void operator delete(void* p, const std::nothrow_t&) noexcept { aw_delete(p); }
void operator delete[](void* p, const std::nothrow_t&) noexcept { aw_delete(p); }

struct ASlot {
    char kind; // 0 none, 'b' buffer, 't' trajectory, 'l' light program, 'y' yaw control, 'r' rth plan, 'B' builder, 'p' light player
    sb_buffer_t buf;
    sb_trajectory_t traj;
    sb_light_program_t light;
    sb_yaw_control_t yaw;
    sb_rth_plan_t rth;
    sb_trajectory_builder_t builder;
    sb_light_player_t player;
    ASlot() : kind(0)
    {
        SBH_DIRTY(buf); SBH_DIRTY(traj); SBH_DIRTY(light); SBH_DIRTY(yaw); SBH_DIRTY(rth); SBH_DIRTY(builder); SBH_DIRTY(player);
    }
};

// library calls are made with tracking on; everything the harness itself
// allocates is allocated with tracking off
static inline sb_error_t lib_done(sb_error_t e)
{
    aw_track(0);
    return e;
}
#define LIB(expr) lib_done((aw_track(1), (expr)))
#define LIBV(stmt) do { aw_track(1); stmt; aw_track(0); } while (0)

static void a_destroy(ASlot& s)
{
    switch (s.kind) {
    case 'b': LIBV(sb_buffer_destroy(&s.buf)); break;
    case 't': LIBV(sb_trajectory_destroy(&s.traj)); break;
    case 'l': LIBV(sb_light_program_destroy(&s.light)); break;
    case 'y': LIBV(sb_yaw_control_destroy(&s.yaw)); break;
    case 'r': LIBV(sb_rth_plan_destroy(&s.rth)); break;
    case 'B': LIBV(sb_trajectory_builder_destroy(&s.builder)); break;
    case 'p': LIBV(sb_light_player_destroy(&s.player)); break;
    default: break;
    }
    s.kind = 0;
}

static std::vector<std::string> colon(const std::string& s)
{
    std::vector<std::string> out;
    std::stringstream ss(s);
    std::string tok;
    while (std::getline(ss, tok, ':')) {
        out.push_back(tok);
    }
    return out;
}

static std::string op_alloc(const std::vector<std::string>& w)
{
    // alloc <nslots> <k> <op;op;...>
    size_t nslots = strtoul(w[1].c_str(), 0, 10);
    long k = strtol(w[2].c_str(), 0, 10);
    std::vector<ASlot> slots(nslots);
    std::vector<Guarded*> callers;      // caller memory behind views (never freed before the end of the case)
    std::vector<int> fds;
    std::vector<std::string> ops;
    {
        std::stringstream ss(w[3]);
        std::string tok;
        while (std::getline(ss, tok, ';')) {
            ops.push_back(tok);
        }
    }
    std::string rcs;
    aw_reset(k);
    auto emit = [&](const std::string& r) { rcs += (rcs.empty() ? "" : ",") + r; };
    auto rc = [&](sb_error_t e) { aw_track(0); emit(S((long long)e)); };
    auto skipped = [&]() { emit("s"); };
    auto is_free = [&](size_t i) { return i < nslots && slots[i].kind == 0; };
    auto kindch = [](const std::string& s) { return s[0]; };
    for (const std::string& o : ops) {
        std::vector<std::string> a = colon(o);
        if (a.empty()) {
            continue;
        }
        const std::string& c = a[0];
        size_t i = a.size() > 1 ? strtoul(a[1].c_str(), 0, 10) : 0;
        if (c == "bi") {
            if (!is_free(i)) { skipped(); continue; }
            sb_error_t e = LIB(sb_buffer_init(&slots[i].buf, strtoul(a[2].c_str(), 0, 10)));
            if (e == SB_SUCCESS) slots[i].kind = 'b';
            rc(e);
        } else if (c == "bv") {
            if (!is_free(i)) { skipped(); continue; }
            size_t n = strtoul(a[3].c_str(), 0, 10);
            Guarded* g = new Guarded(std::vector<uint8_t>(n, 0x5a));
            callers.push_back(g);
            LIBV(sb_buffer_init_view(&slots[i].buf, g->ptr, n));
            slots[i].kind = 'b';
            rc(SB_SUCCESS);
        } else if (c == "bb") {
            if (!is_free(i)) { skipped(); continue; }
            size_t n = strtoul(a[2].c_str(), 0, 10);
            void* p = aw_caller_alloc(n);
            sb_error_t e = LIB(sb_buffer_init_from_bytes(&slots[i].buf, p, n));
            if (e == SB_SUCCESS) {
                slots[i].kind = 'b';
            } else {
                LIBV(free(p));   // refused: the caller still owns the block and frees it
            }
            rc(e);
        } else if (c == "br" || c == "ba" || c == "be" || c == "bc" || c == "bp") {
            if (i >= nslots || slots[i].kind != 'b') { skipped(); continue; }
            size_t n = a.size() > 2 ? strtoul(a[2].c_str(), 0, 10) : 0;
            sb_error_t e;
            if (c == "br") {
                e = LIB(sb_buffer_resize(&slots[i].buf, n));
            } else if (c == "ba") {
                std::vector<uint8_t> d(n, 0x33);
                e = LIB(sb_buffer_append_bytes(&slots[i].buf, d.data(), n));
            } else if (c == "be") {
                e = LIB(sb_buffer_extend_with_zeros(&slots[i].buf, n));
            } else if (c == "bc") {
                e = LIB(sb_buffer_clear(&slots[i].buf));
            } else {
                e = LIB(sb_buffer_prune(&slots[i].buf));
            }
            rc(e);
        } else if (c == "em") {
            size_t j = strtoul(a[2].c_str(), 0, 10);
            if (!is_free(j)) { skipped(); continue; }
            sb_error_t e;
            char kd = kindch(a[1]);
            if (kd == 't') e = LIB(sb_trajectory_init_empty(&slots[j].traj));
            else if (kd == 'l') e = LIB(sb_light_program_init_empty(&slots[j].light));
            else if (kd == 'y') e = LIB(sb_yaw_control_init_empty(&slots[j].yaw));
            else e = LIB(sb_rth_plan_init_empty(&slots[j].rth));
            if (e == SB_SUCCESS) slots[j].kind = kd;
            rc(e);
        } else if (c == "fb") {
            // fb:K:o:c:hex  -- init_from_buffer on a view of fresh caller memory
            size_t j = strtoul(a[2].c_str(), 0, 10);
            if (!is_free(j)) { skipped(); continue; }
            Guarded* g = new Guarded(unhex(a[4]));
            callers.push_back(g);
            sb_error_t e;
            char kd = kindch(a[1]);
            if (kd == 't') e = LIB(sb_trajectory_init_from_buffer(&slots[j].traj, g->ptr, g->n));
            else if (kd == 'l') e = LIB(sb_light_program_init_from_buffer(&slots[j].light, g->ptr, g->n));
            else if (kd == 'y') e = LIB(sb_yaw_control_init_from_buffer(&slots[j].yaw, g->ptr, g->n));
            else e = LIB(sb_rth_plan_init_from_buffer(&slots[j].rth, g->ptr, g->n));
            if (e == SB_SUCCESS) slots[j].kind = kd;
            rc(e);
        } else if (c == "tb") {
            if (!is_free(i)) { skipped(); continue; }
            std::vector<uint8_t> d = unhex(a[2]);
            uint8_t* p = (uint8_t*)aw_caller_alloc(d.size());
            if (!d.empty()) memcpy(p, d.data(), d.size());
            sb_error_t e = LIB(sb_trajectory_init_from_bytes(&slots[i].traj, p, d.size()));
            if (e == SB_SUCCESS) {
                slots[i].kind = 't';
            } else {
                LIBV(free(p));
            }
            rc(e);
        } else if (c == "ff") {
            // ff:K:o:R:c:hex
            size_t j = strtoul(a[2].c_str(), 0, 10);
            if (!is_free(j)) { skipped(); continue; }
            std::vector<uint8_t> d = unhex(a[5]);
            char kd = kindch(a[1]);
            sb_error_t e;
            if (a[3] == "f") {
                int fd = make_fd(d);
                fds.push_back(fd);
                if (kd == 't') e = LIB(sb_trajectory_init_from_binary_file(&slots[j].traj, fd));
                else if (kd == 'l') e = LIB(sb_light_program_init_from_binary_file(&slots[j].light, fd));
                else if (kd == 'y') e = LIB(sb_yaw_control_init_from_binary_file(&slots[j].yaw, fd));
                else e = LIB(sb_rth_plan_init_from_binary_file(&slots[j].rth, fd));
            } else {
                Guarded* g = new Guarded(d);
                callers.push_back(g);
                if (kd == 't') e = LIB(sb_trajectory_init_from_binary_file_in_memory(&slots[j].traj, g->ptr, g->n));
                else if (kd == 'l') e = LIB(sb_light_program_init_from_binary_file_in_memory(&slots[j].light, g->ptr, g->n));
                else if (kd == 'y') e = LIB(sb_yaw_control_init_from_binary_file_in_memory(&slots[j].yaw, g->ptr, g->n));
                else e = LIB(sb_rth_plan_init_from_binary_file_in_memory(&slots[j].rth, g->ptr, g->n));
            }
            if (e == SB_SUCCESS) slots[j].kind = kd;
            rc(e);
        } else if (c == "cl") {
            if (i < nslots && slots[i].kind == 't') {
                sb_error_t e = LIB(sb_trajectory_clear(&slots[i].traj));
                rc(e);
            } else if (i < nslots && slots[i].kind == 'l') {
                LIBV(sb_light_program_clear(&slots[i].light));
                rc(SB_SUCCESS);
            } else {
                skipped();
            }
        } else if (c == "de") {
            if (i < nslots && slots[i].kind != 0) {
                a_destroy(slots[i]);
                rc(SB_SUCCESS);
            } else {
                skipped();
            }
        } else if (c == "Bi") {
            if (!is_free(i)) { skipped(); continue; }
            sb_error_t e = LIB(sb_trajectory_builder_init(&slots[i].builder, (uint8_t)atoi(a[2].c_str()), 0));
            if (e == SB_SUCCESS) slots[i].kind = 'B';
            rc(e);
        } else if (c == "Bs" || c == "Bl" || c == "Bh") {
            if (i >= nslots || slots[i].kind != 'B') { skipped(); continue; }
            sb_error_t e;
            if (c == "Bs") {
                e = LIB(sb_trajectory_builder_set_start_position(&slots[i].builder, vec_of(a[2], a[3], a[4], a[5])));
            } else if (c == "Bl") {
                e = LIB(sb_trajectory_builder_append_line(&slots[i].builder, vec_of(a[2], a[3], a[4], a[5]), (uint32_t)strtoul(a[6].c_str(), 0, 10)));
            } else {
                e = LIB(sb_trajectory_builder_hold_position_for(&slots[i].builder, (uint32_t)strtoul(a[2].c_str(), 0, 10)));
            }
            rc(e);
        } else if (c == "Bf") {
            size_t t = strtoul(a[2].c_str(), 0, 10);
            if (i >= nslots || slots[i].kind != 'B' || !is_free(t)) { skipped(); continue; }
            sb_error_t e = LIB(sb_trajectory_init_from_builder(&slots[t].traj, &slots[i].builder));
            if (e == SB_SUCCESS) slots[t].kind = 't';
            rc(e);
        } else if (c == "rt") {
            // rt:t:time:action:dur:tx:ty:alt:pre:post:neck:neckd:sx:sy:sz:sw
            if (!is_free(i)) { skipped(); continue; }
            sb_rth_plan_entry_t en;
            SBH_DIRTY(en);
            memset(&en, 0, sizeof en);
            en.time_sec = f_of_hex(a[2]);
            en.action = (sb_rth_action_t)atoi(a[3].c_str());
            en.duration_sec = f_of_hex(a[4]);
            en.target.x = f_of_hex(a[5]);
            en.target.y = f_of_hex(a[6]);
            en.target_altitude = f_of_hex(a[7]);
            en.pre_delay_sec = f_of_hex(a[8]);
            en.post_delay_sec = f_of_hex(a[9]);
            en.pre_neck_mm = f_of_hex(a[10]);
            en.pre_neck_duration_sec = f_of_hex(a[11]);
            sb_vector3_with_yaw_t start = vec_of(a[12], a[13], a[14], a[15]);
            sb_error_t e = LIB(sb_trajectory_init_from_rth_plan_entry(&slots[i].traj, &en, start));
            if (e == SB_SUCCESS) slots[i].kind = 't';
            rc(e);
        } else if (c == "pi") {
            size_t o2 = strtoul(a[2].c_str(), 0, 10);
            if (o2 >= nslots || slots[o2].kind != 'l' || !is_free(i)) { skipped(); continue; }
            sb_error_t e = LIB(sb_light_player_init(&slots[i].player, &slots[o2].light));
            if (e == SB_SUCCESS) slots[i].kind = 'p';
            rc(e);
        } else if (c == "ps") {
            size_t n = i;
            sb_poly_t poly;
            float cs[8] = { 1, 1, 1, 1, 1, 1, 1, 1 };
            sb_poly_make(&poly, cs, (uint8_t)n);
            uint8_t nr = 0;
            sb_error_t e = LIB(sb_poly_solve(&poly, 0.5f, 0, &nr));
            rc(e);
        } else {
            emit("?" + c);
        }
    }
    // end of every scenario: destroy everything (players before their programs are irrelevant to the heap)
    for (size_t i = 0; i < nslots; i++) {
        if (slots[i].kind != 0) {
            a_destroy(slots[i]);
        }
    }
    aw_track(0);
    emit("0");
    std::string out = "rcs=" + rcs + " trace=" + aw_events() + " live=" + U(aw_live()) + " bad=" + S(aw_bad_events());
    aw_release_leaks();
    for (Guarded* g : callers) {
        delete g;
    }
    for (int fd : fds) {
        close(fd);
    }
    return out;
}
#endif

// ---------------------------------------------------------------- dispatch
static std::string run_case(const std::vector<std::string>& w)
{
    const std::string& op = w[0];
    if (op == "u16" || op == "i16" || op == "u32" || op == "i32") {
        return op_parse(w);
    }
    if (op == "w16" || op == "w32") {
        return op_write(w);
    }
    if (op == "vu" || op == "vuspec") {
        return op_vu(w);
    }
    if (op == "rgbdec" || op == "rgbenc") {
        return op_rgb(w);
    }
    if (op == "file") {
        return op_file(w);
    }
    if (op == "routes") {
        return op_routes(w);
    }
    if (op == "stats") {
        return op_stats(w);
    }
    if (op == "poly") {
        return op_poly(w);
    }
    if (op == "build") {
        return op_build(w);
    }
    if (op == "rth2traj") {
        return op_rth2traj(w);
    }
    if (op == "util") {
        return op_util(w);
    }
    if (op == "light") {
        if (w[1] == "x") {
            return op_light_x(w[2], w[3]);
        }
        return op_light(w[1] == "h", w[2], w[3]);
    }
    if (op == "lightspec") {
        return op_light(false, w[1], w[2]);
    }
    if (op == "yaw") {
        return op_yaw(w);
    }
    if (op == "traj") {
        return op_traj(w);
    }
    if (op == "rth") {
        return op_rth(w);
    }
    if (op == "load") {
        return op_load(w);
    }
    if (op == "crc") {
        return op_crc(w);
    }
#if SBH_WRAP
    if (op == "alloc") {
        return op_alloc(w);
    }
#endif
    if (op == "crcspec") {
        std::vector<std::string> w2 = { "crc", "0", w[1], "-" };
        return op_crc(w2);
    }
    return "unknown-op " + op;
}

int main(int argc, char** argv)
{
    int timeout_s = 5;
    if (argc > 1) {
        timeout_s = atoi(argv[1]);
    }
    struct sigaction sa;
    memset(&sa, 0, sizeof sa);
    sa.sa_handler = on_signal;
    sa.sa_flags = SA_NODEFER;
    sigaction(SIGSEGV, &sa, 0);
    sigaction(SIGBUS, &sa, 0);
    sigaction(SIGFPE, &sa, 0);
    sigaction(SIGABRT, &sa, 0);
    sigaction(SIGALRM, &sa, 0);
    sigaction(SIGILL, &sa, 0);

    char* line = 0;
    size_t cap = 0;
    ssize_t len;
    while ((len = getline(&line, &cap, stdin)) >= 0) {
        std::vector<std::string> w = split(line);
        if (w.empty()) {
            puts("skip");
            continue;
        }
        std::string out;
        static int n_timeouts = 0;
        if (n_timeouts >= 25) {
            // the run is already a failure; do not spend hours on the rest
            puts("skipped-after-timeouts");
            continue;
        }
        int sig = sigsetjmp(g_jmp, 1);
        if (sig == 0) {
            g_in_case = 1;
            alarm(timeout_s);
            out = run_case(w);
            alarm(0);
            g_in_case = 0;
        } else {
            alarm(0);
            g_in_case = 0;
            out = sig == SIGALRM ? "timeout" : ("crash " + S(sig));
            if (sig == SIGALRM) {
                n_timeouts++;
            }
        }
        fputs(out.c_str(), stdout);
        fputc('\n', stdout);
        // a sanitizer report ends the process without flushing: keep the output in step with the input
        fflush(stdout);
    }
    fflush(stdout);
    return 0;
}
