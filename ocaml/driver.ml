(* Line-protocol driver around the extracted Coq models (Sbmodel).
   One self-contained case per input line: "<op> <arg> <arg> ..."; one result
   line per case.  Integers are decimal, byte strings are hex ("-" = empty),
   binary32 values are 8 hex digits (bit patterns), rationals are printed as
   "num/den" in decimal.  Nothing here computes: it only converts and prints. *)
module M = Sbmodel

(* ---------- conversions between OCaml/Zarith values and extracted numbers *)
let rec pos_of_zz (n : Z.t) : M.positive =
  if Z.equal n Z.one then M.XH
  else if Z.is_even n then M.XO (pos_of_zz (Z.shift_right n 1))
  else M.XI (pos_of_zz (Z.shift_right n 1))

let z_of_zz (n : Z.t) : M.z =
  match Z.sign n with
  | 0 -> M.Z0
  | 1 -> M.Zpos (pos_of_zz n)
  | _ -> M.Zneg (pos_of_zz (Z.neg n))

let rec zz_of_pos = function
  | M.XH -> Z.one
  | M.XO p -> Z.shift_left (zz_of_pos p) 1
  | M.XI p -> Z.succ (Z.shift_left (zz_of_pos p) 1)

let zz_of_z = function
  | M.Z0 -> Z.zero
  | M.Zpos p -> zz_of_pos p
  | M.Zneg p -> Z.neg (zz_of_pos p)

let z_of_int n = z_of_zz (Z.of_int n)
let int_of_z z = Z.to_int (zz_of_z z)
let z_of_string s = z_of_zz (Z.of_string s)
let string_of_z z = Z.to_string (zz_of_z z)

let rec nat_of_int n = if n <= 0 then M.O else M.S (nat_of_int (n - 1))
let nat_of_int n =
  (* tail recursive for large values *)
  let rec go acc k = if k <= 0 then acc else go (M.S acc) (k - 1) in
  ignore nat_of_int; go M.O n
let int_of_nat n =
  let rec go acc = function M.O -> acc | M.S k -> go (acc + 1) k in
  go 0 n

let bytes_of_hex (s : string) : M.z list =
  if s = "-" then []
  else begin
    let n = String.length s / 2 in
    let rec go i acc =
      if i < 0 then acc
      else go (i - 1) (z_of_int (int_of_string ("0x" ^ String.sub s (2 * i) 2)) :: acc)
    in
    go (n - 1) []
  end

let hex_of_bytes (l : M.z list) : string =
  if l = [] then "-"
  else String.concat "" (List.map (fun b -> Printf.sprintf "%02x" ((int_of_z b) land 255)) l)

let ints_of_csv s = if s = "-" then [] else List.map int_of_string (String.split_on_char ',' s)

(* ---------- result printers *)
let pr = Printf.sprintf

let show_vu = function
  | M.VuOk (v, off) -> pr "ok %s %d" (string_of_z v) (int_of_nat off)
  | M.VuErr (c, off) -> pr "err %s %d" (string_of_z c) (int_of_nat off)
  | M.VuOOB off -> pr "oob %d" (int_of_nat off)

let show_parse = function
  | Some (v, off) -> pr "ok %s %d" (string_of_z v) (int_of_nat off)
  | None -> "oob"

(* ---------- container (C04/C05/C06) *)
let show_res_code (f : 'a -> string) = function
  | M.Ok a -> f a
  | M.Err e -> "e" ^ string_of_z e
  | M.OOB (s, o) -> pr "oob%s@%s" (string_of_z s) (string_of_z o)
  | M.Fuel -> "fuel"

let route_of = function "mem" -> M.Mem | "fd" -> M.Fd | s -> failwith ("route " ^ s)

let run_file_script (r : M.route) (bytes : M.z list) (script : string) : string =
  match M.parser_init r bytes with
  | M.Ok p0 ->
    let p = ref p0 in
    let outs = ref ["init:0"] in
    let stop = ref false in
    let emit s = outs := s :: !outs; (match String.split_on_char ':' s with
        | _ :: c :: _ when String.length c > 0 && (c.[0] = 'e' || c.[0] = 'o' || c.[0] = 'f') -> stop := true
        | _ -> ()) in
    List.iter (fun tok ->
        if tok = "" || tok = "-" || !stop then ()
        else match tok.[0] with
          | 'c' -> emit (pr "c:%s,%d,%d" (string_of_z (!p).M.p_type) (int_of_nat (!p).M.p_len) (int_of_nat (!p).M.p_body))
          | 'v' -> emit (pr "v:%s" (string_of_z (!p).M.p_version))
          | 'n' -> (match M.seek_to_next_block !p with
              | M.Ok q -> p := q; emit "n:0"
              | r -> emit ("n:" ^ show_res_code (fun _ -> "0") r))
          | 'r' -> (match M.rewind !p with
              | M.Ok q -> p := q; emit "r:0"
              | r -> emit ("r:" ^ show_res_code (fun _ -> "0") r))
          | 'f' -> let ty = int_of_string (String.sub tok 1 (String.length tok - 1)) in
            (match M.find_first !p (z_of_int ty) with
             | M.Ok q -> p := q; emit "f:0"
             | r -> emit ("f:" ^ show_res_code (fun _ -> "0") r))
          | 'b' -> (match M.read_current_block !p with
              | M.Ok (got, q) -> p := q; emit ("b:0:" ^ hex_of_bytes got)
              | r -> emit ("b:" ^ show_res_code (fun _ -> "0") r))
          | 'x' -> (match M.read_current_block_ex !p with
              | M.Ok ((got, owned), q) -> p := q; emit (pr "x:0:%d:%s" (if owned then 1 else 0) (hex_of_bytes got))
              | r -> emit ("x:" ^ show_res_code (fun _ -> "0") r))
          | _ -> emit ("?" ^ tok))
      (String.split_on_char ',' script);
    String.concat " " (List.rev !outs)
  | r -> "init:" ^ show_res_code (fun _ -> "0") r

(* ---------- dispatch *)
let run_case (w : string list) : string =
  match w with
  | ["u16"; b; off] -> show_parse (M.parse_u16 (bytes_of_hex b) (nat_of_int (int_of_string off)))
  | ["i16"; b; off] -> show_parse (M.parse_i16 (bytes_of_hex b) (nat_of_int (int_of_string off)))
  | ["u32"; b; off] -> show_parse (M.parse_u32 (bytes_of_hex b) (nat_of_int (int_of_string off)))
  | ["i32"; b; off] -> show_parse (M.parse_i32 (bytes_of_hex b) (nat_of_int (int_of_string off)))
  | ["w16"; b; off; v] ->
    let (b', o) = M.write_u16 (bytes_of_hex b) (nat_of_int (int_of_string off)) (z_of_string v) in
    pr "ok %s %d" (hex_of_bytes b') (int_of_nat o)
  | ["w32"; b; off; v] ->
    let (b', o) = M.write_u32 (bytes_of_hex b) (nat_of_int (int_of_string off)) (z_of_string v) in
    pr "ok %s %d" (hex_of_bytes b') (int_of_nat o)
  | ["vu"; b; n; off] ->
    show_vu (M.parse_varuint32 (bytes_of_hex b) (nat_of_int (int_of_string n)) (nat_of_int (int_of_string off)))
  | ["vuspec"; b; n; off] ->
    show_vu (M.varuint_spec (bytes_of_hex b) (nat_of_int (int_of_string n)) (nat_of_int (int_of_string off)))
  | ["rgbdec"; c] ->
    let r = M.decode_rgb565 (z_of_string c) in
    pr "ok %s %s %s" (string_of_z r.M.red) (string_of_z r.M.green) (string_of_z r.M.blue)
  | ["rgbenc"; r; g; b] ->
    pr "ok %s" (string_of_z (M.encode_rgb565 { M.red = z_of_string r; M.green = z_of_string g; M.blue = z_of_string b }))
  | ["file"; r; b; script] -> run_file_script (route_of r) (bytes_of_hex b) script
  | ["load"; k; r; b] ->
    let kd = (match k with "traj" -> M.KTraj | "light" -> M.KLight | "yaw" -> M.KYaw | "rth" -> M.KRth | _ -> failwith "kind") in
    show_res_code (fun (body, owned) -> pr "ok %d %s" (if owned then 1 else 0) (hex_of_bytes body)) (M.load kd (route_of r) (bytes_of_hex b))
  | ["crc"; c; b; _splits] -> pr "ok %s" (string_of_z (M.crc_update (z_of_string c) (bytes_of_hex b)))
  | ["crcspec"; b] -> pr "ok %s" (string_of_z (M.crc_spec (bytes_of_hex b)))
  | op :: _ -> "unknown-op " ^ op
  | [] -> "skip"

let () =
  try
    while true do
      let line = input_line stdin in
      let w = List.filter (fun s -> s <> "") (String.split_on_char ' ' (String.trim line)) in
      let out = try run_case w with e -> "exn " ^ Printexc.to_string e in
      print_string out; print_char '\n'
    done
  with End_of_file -> ()
