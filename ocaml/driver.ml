(* Line-protocol driver around the extracted Coq models (Sbmodel).
   One self-contained case per input line: "<op> <arg> <arg> ..."; one result
   line per case.  Integers are decimal, byte strings are hex ("-" = empty),
   binary32 values are 8 hex digits (bit patterns), rationals are printed as
   "num/den" in decimal.  Nothing here computes: it only converts and prints. *)
module M = Sbmodel

(* ---------- conversions: positive, N and Z are extracted to zarith integers (ExtrOcamlZBigInt),
   so these are identities; nat and Q stay the extracted types *)
let pos_of_zz (n : Z.t) : Z.t = n
let z_of_zz (n : Z.t) : Z.t = n
let zz_of_pos (n : Z.t) : Z.t = n
let zz_of_z (n : Z.t) : Z.t = n

let z_of_int n = Z.of_int n
let int_of_z z = Z.to_int z
let z_of_string s = Z.of_string s
let string_of_z z = Z.to_string z

let rec nat_of_int n = if n <= 0 then M.O else M.S (nat_of_int (n - 1))
let nat_of_int n =
  (* tail recursive for large values *)
  let rec go acc k = if k <= 0 then acc else go (M.S acc) (k - 1) in
  ignore nat_of_int; go M.O n
let int_of_nat n =
  let rec go acc = function M.O -> acc | M.S k -> go (acc + 1) k in
  go 0 n

let bytes_of_hex (s : string) : Z.t list =
  if s = "-" then []
  else begin
    let n = String.length s / 2 in
    let rec go i acc =
      if i < 0 then acc
      else go (i - 1) (z_of_int (int_of_string ("0x" ^ String.sub s (2 * i) 2)) :: acc)
    in
    go (n - 1) []
  end

let hex_of_bytes (l : Z.t list) : string =
  if l = [] then "-"
  else String.concat "" (List.map (fun b -> Printf.sprintf "%02x" ((int_of_z b) land 255)) l)

let ints_of_csv s = if s = "-" then [] else List.map int_of_string (String.split_on_char ',' s)

(* ---------- result printers *)
let pr = Printf.sprintf

let show_vu = function
  | M.VuOk (v, off) -> pr "ok %s %d" (string_of_z v) (int_of_nat off)
  | M.VuErr (c, off) -> pr "err %s %d" (string_of_z c) (int_of_nat off)
  | M.VuOOB off -> pr "oob %d" (int_of_nat off)

let show_parse = function
  | Some (v, off) -> pr "ok %s %d" (string_of_z v) (int_of_nat off)
  | None -> "oob"

(* ---------- container (C04/C05/C06) *)
let show_res_code (f : 'a -> string) = function
  | M.Ok a -> f a
  | M.Err e -> "e" ^ string_of_z e
  | M.OOB (s, o) -> pr "oob%s@%s" (string_of_z s) (string_of_z o)
  | M.Fuel -> "fuel"

let route_of = function "mem" -> M.Mem | "fd" -> M.Fd | s -> failwith ("route " ^ s)

let run_file_script (r : M.route) (bytes : Z.t list) (script : string) : string =
  match M.parser_init r bytes with
  | M.Ok p0 ->
    let p = ref p0 in
    let outs = ref ["init:0"] in
    (* after a failing operation the cursor is unknown (the C parser may have updated it half-way): only a rewind
       or a lookup, which start over from the first block and do not depend on the cursor, are run until one of them
       has succeeded; the model keeps the parser it had (its bytes, route and first-block offset are what they use) *)
    let stop = ref false in
    let emit s = outs := s :: !outs; (match String.split_on_char ':' s with
        | k :: c :: _ when String.length c > 0 && (c.[0] = 'e' || c.[0] = 'o' || c.[0] = 'f') -> ignore k; stop := true
        | k :: _ when k = "r" || k = "f" -> stop := false
        | _ -> ()) in
    List.iter (fun tok ->
        if tok = "" || tok = "-" || (!stop && tok.[0] <> 'r' && tok.[0] <> 'f' && tok.[0] <> 'v') then ()
        else match tok.[0] with
          | 'c' -> emit (pr "c:%s,%d,%d" (string_of_z (!p).M.p_type) (int_of_nat (!p).M.p_len) (int_of_nat (!p).M.p_body))
          | 'v' -> emit (pr "v:%s" (string_of_z (!p).M.p_version))
          | 'n' -> (match M.seek_to_next_block !p with
              | M.Ok q -> p := q; emit "n:0"
              | r -> emit ("n:" ^ show_res_code (fun _ -> "0") r))
          | 'r' -> (match M.rewind !p with
              | M.Ok q -> p := q; emit "r:0"
              | r -> emit ("r:" ^ show_res_code (fun _ -> "0") r))
          | 'f' -> let ty = int_of_string (String.sub tok 1 (String.length tok - 1)) in
            (match M.find_first !p (z_of_int ty) with
             | M.Ok q -> p := q; emit "f:0"
             | r -> emit ("f:" ^ show_res_code (fun _ -> "0") r))
          | 'b' -> (match M.read_current_block !p with
              | M.Ok (got, q) -> p := q; emit ("b:0:" ^ hex_of_bytes got)
              | r -> emit ("b:" ^ show_res_code (fun _ -> "0") r))
          | 'x' -> (match M.read_current_block_ex !p with
              | M.Ok ((got, owned), q) -> p := q; emit (pr "x:0:%d:%s" (if owned then 1 else 0) (hex_of_bytes got))
              | r -> emit ("x:" ^ show_res_code (fun _ -> "0") r))
          | _ -> emit ("?" ^ tok))
      (String.split_on_char ',' script);
    String.concat " " (List.rev !outs)
  | r -> "init:" ^ show_res_code (fun _ -> "0") r

(* ---------- binary32 bit patterns -> exact values *)
let q_of_zz (num : Z.t) (den : Z.t) : M.q = { M.qnum = z_of_zz num; M.qden = pos_of_zz den }

type fval = FNaN | FNegInf | FPosInf | FFin of Z.t * Z.t   (* num, den (power of two) *)

let fval_of_hex (s : string) : fval =
  let u = int_of_string ("0x" ^ s) in
  let sign = (u lsr 31) land 1 and e = (u lsr 23) land 255 and m = u land 0x7FFFFF in
  if e = 255 then (if m <> 0 then FNaN else if sign = 1 then FNegInf else FPosInf)
  else begin
    let mant = if e = 0 then m else m lor 0x800000 in
    let ex = (if e = 0 then 1 else e) - 150 in
    let num = Z.of_int (if sign = 1 then - mant else mant) in
    if ex >= 0 then FFin (Z.shift_left num ex, Z.one)
    else FFin (num, Z.shift_left Z.one (- ex))
  end

let ftime_of_hex s = match fval_of_hex s with
  | FNaN -> M.TNaN | FNegInf -> M.TNegInf | FPosInf -> M.TPosInf
  | FFin (n, d) -> M.TFin (q_of_zz n d)

let string_of_q (q : M.q) : string =
  let n = zz_of_z q.M.qnum and d = zz_of_pos q.M.qden in
  let g = Z.gcd n d in
  let g = if Z.equal g Z.zero then Z.one else g in
  let n = Z.div n g and d = Z.div d g in
  if Z.equal d Z.one then Z.to_string n else Z.to_string n ^ "/" ^ Z.to_string d

(* ---------- RTH (C11) *)
let run_rth ?(empty=false) (b : Z.t list) (pts : int list) (times : string list) : string =
  match (if empty then M.Ok M.plan_empty else M.plan_init b) with
  | M.Ok pl ->
    let hd = pr "init:0 ne=%d np=%d" (int_of_nat (M.num_entries pl)) (int_of_nat pl.M.pl_num_points) in
    let ps = List.map (fun i ->
        "p:" ^ show_res_code (fun (x, y) -> pr "0:%s,%s" (string_of_z x) (string_of_z y)) (M.get_point pl (z_of_int i))) pts in
    let qs = List.map (fun t ->
        "q:" ^ show_res_code (fun (r : M.eval_result) ->
            let (tx, ty) = r.M.r_target in
            pr "0:%s,%s,%s,%s,%s,%s,%s,%s,%s,%s"
              (match r.M.r_time with Some z -> string_of_z z | None -> "in")
              (string_of_z r.M.r_action) (string_of_z r.M.r_duration) (string_of_z tx) (string_of_z ty)
              (string_of_z r.M.r_altitude) (string_of_z r.M.r_pre_delay) (string_of_z r.M.r_post_delay)
              (string_of_z r.M.r_neck) (string_of_z r.M.r_neck_duration))
          (M.evaluate_at pl (ftime_of_hex t))) times in
    String.concat " " (hd :: ps @ qs)
  | r -> "init:" ^ show_res_code (fun _ -> "0") r

(* ---------- trajectory (C01 C07 C08) *)
let qtime_of_hex s = match fval_of_hex s with
  | FNaN -> failwith "NaN time" | FNegInf -> M.QNegInf | FPosInf -> M.QPosInf
  | FFin (n, d) -> M.QFin (q_of_zz n d)

let qabs_of_time = function M.QFin q -> q | _ -> { M.qnum = Z.zero; M.qden = Z.one }

let show_vec4 (v : M.vec4) = pr "%s,%s,%s,%s" (string_of_q v.M.vx) (string_of_q v.M.vy) (string_of_q v.M.vz) (string_of_q v.M.vyaw)

(* traj <hex> <queries>: each query is a letter (p,v,a) followed by the binary32 time; the
   cursor is threaded through the queries like the C player ('h' mode) or reset for each ('f' mode) *)
let run_traj ?(empty=false) (mode : string) (b : Z.t list) (queries : string list) : string =
  match (if empty then M.Ok M.traj_empty else M.traj_init b) with
  | M.Ok tr ->
    let dur = show_res_code (fun d -> string_of_z d) (M.total_duration_msec tr) in
    let segs = M.segments_prefix tr in
    let nseg = show_res_code (fun l -> string_of_int (List.length l)) (M.segments tr) in
    let hd = pr "init:0 scale=%s yaw=%d start=%s dur=%s nseg=%s" (string_of_z tr.M.t_scale) (if tr.M.t_use_yaw then 1 else 0)
        (show_vec4 tr.M.t_start) dur nseg in
    let cur = ref (M.cursor0 tr) in
    let outs = List.map (fun qs ->
        let kind = qs.[0] in
        let t = qtime_of_hex (String.sub qs 1 (String.length qs - 1)) in
        let c = if mode = "h" then !cur else M.cursor0 tr in
        if kind = 'd' then "d:" ^ show_res_code (fun d -> "0:" ^ string_of_z d) (M.total_duration_msec tr) else
        match M.seek tr c t with
        | M.Ok l ->
          cur := M.landing_cursor l;
          let (v, k) = (match kind with
              | 'p' -> (M.position_of l, 0) | 'v' -> (M.velocity_of l, 1) | _ -> (M.acceleration_of l, 2)) in
          let tq = (match M.clamp0 t with M.QFin q -> q | _ -> qabs_of_time t) in
          let tol = M.tol_at (nat_of_int k) segs tq in
          pr "%c:0:%s:%s:%d" kind (show_vec4 v) (string_of_q tol) (int_of_nat (M.landing_cursor l).M.c_off)
        | r -> pr "%c:%s" kind (show_res_code (fun _ -> "0") r)) queries in
    let extra = List.map (fun (lbl, th) ->
        let t = qtime_of_hex th in
        match M.seek tr (M.cursor0 tr) t with
        | M.Ok l ->
          let tq = (match M.clamp0 t with M.QFin q -> q | _ -> qabs_of_time t) in
          let tol = M.tol_at M.O segs tq in
          pr "%s:0:%s:%s:%d" lbl (show_vec4 (M.position_of l)) (string_of_q tol) (int_of_nat (M.landing_cursor l).M.c_off)
        | r -> pr "%s:%s" lbl (show_res_code (fun _ -> "0") r)) [("s", "00000000"); ("e", "7f800000")] in
    String.concat " " (hd :: outs @ extra)
  | r -> "init:" ^ show_res_code (fun _ -> "0") r

(* ---------- yaw (C10) *)
let run_yaw ?(empty=false) (mode : string) (b : Z.t list) (queries : string list) : string =
  match (if empty then M.Ok M.yaw_empty else M.yaw_init b) with
  | M.Ok y ->
    let hd = pr "init:0 auto=%d off=%s n=%d empty=%d dur=%s" (if y.M.y_auto then 1 else 0) (string_of_z y.M.y_offset)
        (int_of_nat y.M.y_num_deltas) (if M.yaw_is_empty y then 1 else 0) (string_of_z (M.yaw_total_duration_msec y)) in
    let cur = ref (M.ycursor0 y) in
    let outs = List.map (fun qs ->
        let kind = qs.[0] in
        let t = qtime_of_hex (String.sub qs 1 (String.length qs - 1)) in
        if kind = 'd' then pr "d:0:%s" (string_of_z (M.yaw_total_duration_msec y)) else
        let c = if mode = "h" then !cur else M.ycursor0 y in
        match M.yseek y c t with
        | M.Ok l ->
          cur := M.ylanding_cursor l;
          let tq = (match M.clamp0 t with M.QFin q -> q | _ -> qabs_of_time t) in
          let tol = M.yaw_tol_at y tq in
          let off = int_of_nat (M.ylanding_cursor l).M.yc_off in
          (match kind with
           | 'y' -> pr "y:0:%s:%s:%d" (string_of_q (M.yaw_of l)) (string_of_q tol) off
           | _ -> (match M.yaw_rate_of l with
               | Some r -> pr "r:0:%s:%d" (string_of_q r) off
               | None -> pr "r:0:inf:%d" off))
        | r -> pr "%c:%s" kind (show_res_code (fun _ -> "0") r)) queries in
    String.concat " " (hd :: outs)
  | r -> "init:" ^ show_res_code (fun _ -> "0") r

(* ---------- lights (C02 C09) *)
let light_fuel = nat_of_int 400000

let show_rgbq (c : M.rgbq) = pr "%s,%s,%s" (string_of_q c.M.qr) (string_of_q c.M.qg) (string_of_q c.M.qb)

(* light <mode f|h> <hex> <queries>: c<t> colour, p<t> pyro mask, s<t> seek (ended, next); t decimal ms *)
let run_light (mode : string) (prog : Z.t list) (queries : string list) : string =
  let pl = ref (M.player_fresh prog) in
  let outs = List.map (fun qs ->
      let kind = qs.[0] in
      let t = z_of_string (String.sub qs 1 (String.length qs - 1)) in
      let p0 = if mode = "h" then !pl else M.player_fresh prog in
      match M.light_seek light_fuel prog p0 t with
      | M.Ok p ->
        pl := p;
        (match kind with
         | 'c' -> pr "c:%s:%d" (show_rgbq (M.obs_color p)) (if p.M.ex.M.tr_active then 1 else 0)
         | 'p' -> pr "p:%s" (string_of_z (M.obs_pyro p))
         | _ -> pr "s:%d,%s" (if M.obs_ended p then 1 else 0) (string_of_z (M.obs_next p)))
      | M.Fuel -> pr "%c:noprogress" kind
      | _ -> pr "%c:?" kind) queries in
  String.concat " " outs

(* the declarative semantics on the same queries (always 'fresh') *)
let run_lightspec (prog : Z.t list) (queries : string list) : string =
  let outs = List.map (fun qs ->
      let kind = qs.[0] in
      let t = z_of_string (String.sub qs 1 (String.length qs - 1)) in
      match M.state_at light_fuel prog t with
      | Some s ->
        (match kind with
         | 'c' -> let infade = (match s.M.m_fade with
             | Some f -> Z.lt (zz_of_z t) (Z.add (zz_of_z f.M.f_t0) (zz_of_z f.M.f_dur)) | None -> false) in
           pr "c:%s:%d" (show_rgbq (M.spec_color s t)) (if infade then 1 else 0)
         | 'p' -> pr "p:%s" (string_of_z (M.spec_pyro s))
         | _ -> pr "s:%d,%s" (if M.spec_ended s then 1 else 0) (string_of_z (M.spec_next s t)))
      | None -> pr "%c:noprogress" kind) queries in
  String.concat " " outs

(* ---------- builder (C16), RTH conversion (C12), utilities (C20) *)
let q_of_hex s = match fval_of_hex s with
  | FFin (n, d) -> q_of_zz n d
  | _ -> failwith "non-finite float where a finite one is required"

let fnum_of_hex s = match fval_of_hex s with
  | FNaN -> M.FNan | FNegInf -> M.FInf true | FPosInf -> M.FInf false
  | FFin (n, d) -> M.FVal (q_of_zz n d)

let show_fnum = function
  | M.FNan -> "nan" | M.FInf true -> "-inf" | M.FInf false -> "inf" | M.FVal q -> string_of_q q

let vec4_of_hex a b c d = { M.vx = q_of_hex a; M.vy = q_of_hex b; M.vz = q_of_hex c; M.vyaw = q_of_hex d }

(* positions of a finished trajectory at the given times (ms), with the C01 tolerance *)
let probe_positions (bytes : Z.t list) (times_ms : int list) : string list =
  match M.traj_init bytes with
  | M.Ok tr ->
    let segs = M.segments_prefix tr in
    List.map (fun ms ->
        (* the harness passes (float)ms / 1000.0f *)
        let tq = M.fdiv (M.rnd32 (q_of_zz (Z.of_int ms) Z.one)) (q_of_zz (Z.of_int 1000) Z.one) in
        match M.position_at tr (M.QFin tq) with
        | M.Ok v -> pr "P:0:%s:%s" (show_vec4 v) (string_of_q (M.tol_at M.O segs tq))
        | r -> "P:" ^ show_res_code (fun _ -> "0") r) times_ms
  | r -> ["T:" ^ show_res_code (fun _ -> "0") r]

let run_build (scale : string) (flags : string) (calls : string) : string =
  match M.builder_init (z_of_string scale) (z_of_string flags) with
  | M.Ok b0 ->
    let b = ref b0 in
    let cum = ref 0 in
    let marks = ref [] in
    let outs = ref ["init:0"] in
    let emit s = outs := s :: !outs in
    let size () = List.length (!b).M.bb_bytes in
    List.iter (fun call ->
        match String.split_on_char ':' call with
        | ["S"; x; y; z; w] ->
          (match M.set_start_position !b (vec4_of_hex x y z w) with
           | M.Ok b' -> b := b'; emit (pr "S:0:%d" (size ()))
           | r -> emit (pr "S:%s:%d" (show_res_code (fun _ -> "0") r) (size ())))
        | ["L"; x; y; z; w; d] ->
          (match M.append_line !b (vec4_of_hex x y z w) (z_of_string d) with
           | M.Ok b' -> b := b'; cum := !cum + int_of_string d; marks := !cum :: !marks; emit (pr "L:0:%d" (size ()))
           | r -> emit (pr "L:%s:%d" (show_res_code (fun _ -> "0") r) (size ())))
        | ["H"; d] ->
          (match M.hold_fast !b (z_of_string d) with
           | M.Ok b' -> b := b'; cum := !cum + int_of_string d; marks := !cum :: !marks; emit (pr "H:0:%d" (size ()))
           | r -> emit (pr "H:%s:%d" (show_res_code (fun _ -> "0") r) (size ())))
        | ["I"; sc] ->
          (match M.builder_init (z_of_string sc) Z.zero with
           | M.Ok _ -> emit "I:valid-scale-not-modelled"
           | r -> emit (pr "I:%s:%d" (show_res_code (fun _ -> "0") r) (size ())))
        | ["F"] ->
          let (bytes, b') = M.finish !b in
          b := b';
          emit ("F:0:" ^ hex_of_bytes bytes);
          List.iter emit (probe_positions bytes (List.rev !marks));
          cum := 0; marks := []
        | _ -> emit ("?" ^ call))
      (String.split_on_char ';' calls);
    emit ("buf:" ^ hex_of_bytes (!b).M.bb_bytes);
    String.concat " " (List.rev !outs)
  | r -> "init:" ^ show_res_code (fun _ -> "0") r

let run_rth2traj (w : string list) : string =
  match w with
  | [time; action; dur; tx; ty; alt; pre; post; neck; neckd; sx; sy; sz; sw; probes] ->
    let e = { M.re_time = fnum_of_hex time; M.re_action = z_of_string action; M.re_duration = fnum_of_hex dur;
              M.re_target = (q_of_hex tx, q_of_hex ty); M.re_altitude = q_of_hex alt;
              M.re_pre_delay = fnum_of_hex pre; M.re_post_delay = fnum_of_hex post;
              M.re_neck = q_of_hex neck; M.re_neck_duration = fnum_of_hex neckd } in
    (match M.rth_to_trajectory_fast e (vec4_of_hex sx sy sz sw) with
     | M.Ok bytes ->
       let dur = (match M.traj_init bytes with
           | M.Ok tr -> show_res_code string_of_z (M.total_duration_msec tr) | _ -> "?") in
       String.concat " " (("ok:" ^ hex_of_bytes bytes) :: ("dur=" ^ dur) :: probe_positions bytes (ints_of_csv probes))
     | r -> show_res_code (fun _ -> "0") r)
  | _ -> "bad-args"

(* ---------- allocation discipline (C17) *)
let kind_of_string = function "t" -> M.KTraj | "l" -> M.KLight | "y" -> M.KYaw | _ -> M.KRth
let hexlen s = if s = "-" then 0 else String.length s / 2

let parse_alloc_op (o : string) : M.op option =
  let n s = nat_of_int (int_of_string s) in
  match String.split_on_char ':' o with
  | ["bi"; o; k] -> Some (M.OpBufInit (n o, n k))
  | ["bv"; o; c; k] -> Some (M.OpBufView (n o, n c, n k))
  | ["bb"; o; k] -> Some (M.OpBufFromBytes (n o, n k))
  | ["br"; o; k] -> Some (M.OpBufResize (n o, n k))
  | ["ba"; o; k] -> Some (M.OpBufAppend (n o, n k))
  | ["be"; o; k] -> Some (M.OpBufExtend (n o, n k))
  | ["bc"; o] -> Some (M.OpBufClear (n o))
  | ["bp"; o] -> Some (M.OpBufPrune (n o))
  | ["em"; k; o] -> Some (M.OpEmpty (kind_of_string k, n o))
  | ["fb"; k; o; c; hex] -> Some (M.OpFromBuffer (kind_of_string k, n o, n c, nat_of_int (hexlen hex)))
  | ["tb"; o; hex] -> Some (M.OpTrajFromBytes (n o, nat_of_int (hexlen hex)))
  | ["ff"; k; o; r; c; hex] -> Some (M.OpFromFile (kind_of_string k, n o, (if r = "f" then M.Fd else M.Mem), n c, bytes_of_hex hex))
  | ["cl"; o] -> Some (M.OpClear (n o))
  | ["de"; o] -> Some (M.OpDestroy (n o))
  | ["Bi"; o; sc] -> Some (M.OpBuilderInit (n o, z_of_string sc))
  | ["Bs"; o; x; y; z; w] -> Some (M.OpBuilderStart (n o, vec4_of_hex x y z w))
  | ["Bl"; o; x; y; z; w; d] -> Some (M.OpBuilderLine (n o, vec4_of_hex x y z w, z_of_string d))
  | ["Bh"; o; d] -> Some (M.OpBuilderHold (n o, z_of_string d))
  | ["Bf"; o; t] -> Some (M.OpBuilderFinish (n o, n t))
  | ["rt"; t; time; action; dur; tx; ty; alt; pre; post; neck; neckd; sx; sy; sz; sw] ->
    let e = { M.re_time = fnum_of_hex time; M.re_action = z_of_string action; M.re_duration = fnum_of_hex dur;
              M.re_target = (q_of_hex tx, q_of_hex ty); M.re_altitude = q_of_hex alt;
              M.re_pre_delay = fnum_of_hex pre; M.re_post_delay = fnum_of_hex post;
              M.re_neck = q_of_hex neck; M.re_neck_duration = fnum_of_hex neckd } in
    Some (M.OpRthToTraj (n t, e, vec4_of_hex sx sy sz sw))
  | ["pi"; p; o] -> Some (M.OpPlayerInit (n p, n o))
  | ["ps"; k] -> Some (M.OpPolySolve (n k))
  | _ -> None

let show_event = function
  | M.EvAlloc (id, sz) -> pr "a%d:%d" (int_of_nat id) (int_of_nat sz)
  | M.EvAllocFail sz -> pr "af:%d" (int_of_nat sz)
  | M.EvRealloc (o, id, sz) -> pr "r%d>%d:%d" (int_of_nat o) (int_of_nat id) (int_of_nat sz)
  | M.EvReallocFail (o, sz) -> pr "rf%d:%d" (int_of_nat o) (int_of_nat sz)
  | M.EvFree id -> pr "f%d" (int_of_nat id)
  | M.EvNew id -> pr "n%d" (int_of_nat id)
  | M.EvDelete id -> pr "d%d" (int_of_nat id)
  | M.EvCallerAlloc (id, sz) -> pr "c%d:%d" (int_of_nat id) (int_of_nat sz)
  | M.EvBad _ -> "bad"

let run_alloc (nslots : string) (k : string) (ops : string) : string =
  let parsed = List.map parse_alloc_op (String.split_on_char ';' ops) in
  if List.mem None parsed then "bad-op" else
  let ops = List.map (function Some o -> o | None -> assert false) parsed in
  let ki = int_of_string k in
  let fail = if ki <= 0 then None else Some (nat_of_int (ki - 1)) in
  let ((rcs, _), h) = M.scenario (nat_of_int (int_of_string nslots)) fail ops in
  let tr = M.trace_of h in
  let nbad = List.length (List.filter (function M.EvBad _ -> true | _ -> false) tr) in
  pr "rcs=%s trace=%s live=%d bad=%d"
    (String.concat "," (List.map (function M.Rc e -> string_of_z e | M.Skipped -> "s") rcs))
    (if tr = [] then "-" else String.concat "," (List.map show_event tr))
    (List.length h.M.h_live) nbad

(* ---------- kernel cross-check (tools/xcheck.py): flat integer lists, printed like Coq prints them *)
let zs_of_csv s = if s = "-" then [] else List.map z_of_string (String.split_on_char ',' s)
let run_xc (w : string list) : string =
  let show l = String.concat " " (List.map string_of_z l) in
  match w with
  | ["arith"; a; b] -> show (M.xc_arith (z_of_string a) (z_of_string b))
  | ["q"; an; ad; bn; bd] -> show (M.xc_q (z_of_string an) (z_of_string ad) (z_of_string bn) (z_of_string bd))
  | ["codec"; hex; off] -> show (M.xc_codec (bytes_of_hex hex) (nat_of_int (int_of_string off)))
  | ["crc"; hex] -> show (M.xc_crc (bytes_of_hex hex))
  | ["load"; hex] -> show (M.xc_load (bytes_of_hex hex))
  | ["rth"; hex; tn; td] -> show (M.xc_rth (bytes_of_hex hex) (z_of_string tn) (z_of_string td))
  | ["traj"; hex; tn; td] -> show (M.xc_traj (bytes_of_hex hex) (z_of_string tn) (z_of_string td))
  | ["yaw"; hex; tn; td] -> show (M.xc_yaw (bytes_of_hex hex) (z_of_string tn) (z_of_string td))
  | ["light"; hex; t] -> show (M.xc_light (bytes_of_hex hex) (z_of_string t))
  | ["alloc"; k; codes] -> show (M.xc_alloc (z_of_string k) (zs_of_csv codes))
  | _ -> "bad-args"

let zero_q = { M.qnum = Z.zero; M.qden = Z.one }

let run_util (w : string list) : string =
  match w with
  | ["travel"; d; v; a] -> show_fnum (M.travel_time (fnum_of_hex d) (fnum_of_hex v) (fnum_of_hex a))
  | ["scale"; s; x; y; z] -> show_res_code string_of_z (M.scale_update (z_of_string s) (q_of_hex x) (q_of_hex y) (q_of_hex z))
  | ["msec"; d] -> show_res_code string_of_z (M.msec_of_sec (fnum_of_hex d))
  | ["expand"; lo; hi; off] -> let (a, b) = M.interval_expand (q_of_hex lo) (q_of_hex hi) (q_of_hex off) in pr "%s,%s" (string_of_q a) (string_of_q b)
  | ["boxexpand"; a1; a2; b1; b2; c1; c2; off] ->
    let o = q_of_hex off in
    String.concat "," (List.concat_map (fun (lo, hi) -> let (a, b) = M.interval_expand (q_of_hex lo) (q_of_hex hi) o in [string_of_q a; string_of_q b])
                         [(a1, a2); (b1, b2); (c1, c2)])
  | ["scale1"; s; z] -> show_res_code string_of_z (M.scale_update (z_of_string s) zero_q zero_q (q_of_hex z))
  | ["scale2"; s; x; y] -> show_res_code string_of_z (M.scale_update (z_of_string s) (q_of_hex x) (q_of_hex y) zero_q)
  | "rgbwtemp" :: _ -> "-"
  | ["interp"; r1; g1; b1; r2; g2; b2; ratio] ->
    let c = M.interp_rgb { M.red = z_of_string r1; M.green = z_of_string g1; M.blue = z_of_string b1 }
        { M.red = z_of_string r2; M.green = z_of_string g2; M.blue = z_of_string b2 } (q_of_hex ratio) in
    pr "%s,%s,%s" (string_of_z c.M.red) (string_of_z c.M.green) (string_of_z c.M.blue)
  | ["rgbw"; meth; r; g; b; p1; p2; p3] ->
    let c = { M.red = z_of_string r; M.green = z_of_string g; M.blue = z_of_string b } in
    let o = (match meth with
        | "min" -> M.rgbw_min_sub c
        | "fixed" -> M.rgbw_fixed c (z_of_string p1)
        | _ -> M.rgbw_reference c { M.red = z_of_string p1; M.green = z_of_string p2; M.blue = z_of_string p3 }) in
    pr "%s,%s,%s,%s" (string_of_z o.M.wr) (string_of_z o.M.wg) (string_of_z o.M.wb) (string_of_z o.M.ww)
  | ["buf"; kind; init; ops] ->
    let start = (match kind with
        | "init" -> M.Ok (M.buf_init (nat_of_int (int_of_string init)))
        | "bytes" -> M.buf_init_from_bytes (bytes_of_hex init)
        | _ -> M.Ok (M.buf_init_view (bytes_of_hex init))) in
    (match start with
     | M.Ok b0 ->
       let b = ref b0 in
       let st () = pr "%d/%d" (int_of_nat (M.bf_size !b)) (int_of_nat (!b).M.bf_cap) in
       let outs = ref ["init:0:" ^ st ()] in
       List.iter (fun op ->
           if op = "" || op = "-" then () else
           let arg = String.sub op 1 (String.length op - 1) in
           let r = (match op.[0] with
               | 'a' -> M.buf_append !b (bytes_of_hex arg)
               | 'b' -> M.buf_append !b [z_of_string arg]
               | 'k' -> M.buf_append !b (bytes_of_hex arg)
               | 'z' -> M.buf_extend_zeros !b (nat_of_int (int_of_string arg))
               | 'r' -> M.buf_resize !b (nat_of_int (int_of_string arg))
               | 'c' -> M.buf_clear !b
               | 'p' -> M.buf_prune !b
               | _ -> M.Ok (M.buf_fill !b (z_of_string arg))) in
           (match r with
            | M.Ok b' -> b := b'; outs := (pr "%c:0:%s" op.[0] (st ())) :: !outs
            | e -> outs := (pr "%c:%s:%s" op.[0] (show_res_code (fun _ -> "0") e) (st ())) :: !outs))
         (String.split_on_char ',' ops);
       String.concat " " (List.rev (("data:" ^ hex_of_bytes (!b).M.bf_data) :: !outs))
     | e -> "init:" ^ show_res_code (fun _ -> "0") e)
  | ["fop"; op; a; b] ->
    let x = q_of_hex a and y = q_of_hex b in
    string_of_q (match op with "add" -> M.fadd x y | "sub" -> M.fsub x y | "mul" -> M.fmul x y | "div" -> M.fdiv x y | _ -> M.fsqrt x)
  | _ -> "bad-args"

(* ---------- statistics, bounding box, polynomial toolkit (C13 C14 C15 C18) *)
let show_cross = function
  | M.NoCrossing -> "none"
  | M.CrossIn (s, d, a, b, deg) -> pr "in:%s:%s:%s:%s:%d" (string_of_z s) (string_of_z d) (string_of_q a) (string_of_q b) (int_of_nat deg)

let run_stats (w : string list) : string =
  match w with
  | ["takeoff"; b; ascent; speed; acc] ->
    (match M.traj_init (bytes_of_hex b) with
     | M.Ok tr ->
       (match M.propose_takeoff tr (fnum_of_hex ascent) (fnum_of_hex speed) (fnum_of_hex acc) with
        | M.Ok None -> "invalid"
        | M.Ok (Some a) ->
          (* when the altitude is never reached: how close the trajectory gets (certified upper bound of max z) *)
          let extra = (match a.M.tk_cross with
              | M.NoCrossing ->
                let one = { M.qnum = Z.one; M.qden = Z.one } and zero = { M.qnum = Z.zero; M.qden = Z.one } in
                (match M.segments tr with
                 | M.Ok segs ->
                   let ub = List.fold_left (fun acc (_, sg) ->
                       let (_, u) = M.poly_max (nat_of_int 12) (M.zpoly sg) zero one in
                       match acc with None -> Some u | Some x -> Some (if M.qle_bool x u then u else x)) None segs in
                   (match ub with Some u -> " zmax=" ^ string_of_q u | None -> " zmax=none")
                 | _ -> "")
              | _ -> "") in
          pr "%s travel=%s%s" (show_cross a.M.tk_cross) (show_fnum a.M.tk_travel) extra
        | r -> show_res_code (fun _ -> "0") r)
     | r -> "init:" ^ show_res_code (fun _ -> "0") r)
  | ["landing"; b; descent; thr] ->
    (match M.traj_init (bytes_of_hex b) with
     | M.Ok tr ->
       let total = show_res_code string_of_z (M.total_duration_msec tr) in
       let show = function
         | M.Ok (M.LandAtMs ms) -> pr "at:%s" (string_of_z ms)
         | M.Ok (M.LandAtMsFallback ms) -> pr "fallback:%s" (string_of_z ms)
         | M.Ok (M.LandIn (s, d, a, b, deg)) -> pr "in:%s:%s:%s:%s:%d" (string_of_z s) (string_of_z d) (string_of_q a) (string_of_q b) (int_of_nat deg)
         | r -> show_res_code (fun _ -> "0") r in
       pr "%s total=%s spec=%s" (show (M.propose_landing tr (fnum_of_hex descent) (fnum_of_hex thr))) total
         (show (M.propose_landing_spec tr (fnum_of_hex descent) (fnum_of_hex thr)))
     | r -> "init:" ^ show_res_code (fun _ -> "0") r)
  | ["bbox"; b] ->
    (match M.traj_init (bytes_of_hex b) with
     | M.Ok tr ->
       (match M.segments tr with
        | M.Ok segs ->
          if segs = [] then "empty" else
          let axis (sel : M.segment -> M.q list) =
            (match M.axis_bounds sel segs with
             | Some ((a, b), (c, d)) -> pr "%s:%s:%s:%s:%d" (string_of_q a) (string_of_q b) (string_of_q c) (string_of_q d) (int_of_nat (M.max_degree sel segs))
             | None -> "?") in
          pr "ok x=%s y=%s z=%s" (axis (fun s -> s.M.sg_x)) (axis (fun s -> s.M.sg_y)) (axis (fun s -> s.M.sg_z))
        | r -> show_res_code (fun _ -> "0") r)
     | r -> "init:" ^ show_res_code (fun _ -> "0") r)
  | _ -> "bad-args"

let qs_of_hexcsv s = if s = "-" then [] else List.map q_of_hex (String.split_on_char ',' s)

let run_poly (w : string list) : string =
  let show_qs l = if l = [] then "-" else String.concat "," (List.map string_of_q l) in
  match w with
  | ["bezier"; d; pts; us] ->
    let cs = M.make_bezier_c (q_of_hex d) (qs_of_hexcsv pts) in
    pr "c=%s v=%s" (show_qs cs) (show_qs (List.map (fun u -> M.qeval cs u) (qs_of_hexcsv us)))
  | "4d" :: _ -> "4d=same"
  | "nullargs" :: _ -> "null=same"
  | ["eval"; cs; us] -> let c = qs_of_hexcsv cs in pr "v=%s" (show_qs (List.map (fun u -> M.qeval c u) (qs_of_hexcsv us)))
  | ["deriv"; cs] -> pr "c=%s" (show_qs (M.deriv M.qOps (qs_of_hexcsv cs)))
  | ["scale"; cs; k] -> pr "c=%s" (show_qs (M.scale M.qOps (qs_of_hexcsv cs) (q_of_hex k)))
  | ["stretch"; cs; k] -> pr "c=%s" (show_qs (M.stretch M.qOps (qs_of_hexcsv cs) (q_of_hex k)))
  | ["addc"; cs; k] -> pr "c=%s" (show_qs (M.add_constant M.qOps (qs_of_hexcsv cs) (q_of_hex k)))
  | ["solve"; cs; y] ->
    (* every real root of p = y inside the Cauchy bound: merged boxes of width ~2^-30 of the bound *)
    let c = M.shift_poly (qs_of_hexcsv cs) (q_of_hex y) in
    let bnd = M.cauchy_bound c in
    let nb = { M.qnum = Z.neg bnd.M.qnum; M.qden = bnd.M.qden } in
    let boxes = M.merge_boxes (M.root_boxes (nat_of_int 24) c nb bnd) in
    pr "roots=%s" (if boxes = [] then "-" else String.concat ";" (List.map (fun (a, b) ->
        pr "%s:%s:%d" (string_of_q a) (string_of_q b) (if M.sign_change c a b then 1 else 0)) boxes))
  | ["touches"; cs; y] ->
    let c = M.shift_poly (qs_of_hexcsv cs) (q_of_hex y) in
    let one = { M.qnum = Z.one; M.qden = Z.one } and zero = { M.qnum = Z.zero; M.qden = Z.one } in
    (match M.first_root (nat_of_int 44) c zero one with
     | M.NoRoot -> "none"
     | M.Maybe (a, b) -> pr "in:%s:%s:%d" (string_of_q a) (string_of_q b) (if M.sign_change c a b then 1 else 0))
  | ["solve32"; cs; y] ->
    (match M.solve32 (qs_of_hexcsv cs) (q_of_hex y) with
     | None -> "cubic"
     | Some rs -> pr "roots32=%d%s" (List.length rs) (String.concat "" (List.map (fun r -> ":" ^ string_of_q r) rs)))
  | ["touchend"; cs] ->
    (match qs_of_hexcsv cs with
     | [b; a] ->
       let zero = { M.qnum = Z.zero; M.qden = Z.one } and one = { M.qnum = Z.one; M.qden = Z.one } in
       let y0 = M.eval_linear_f32 b a zero and y1 = M.eval_linear_f32 b a one in
       let t y = match M.touches_linear b a y with Some _ -> 1 | None -> 0 in
       pr "te=%d:%d y=%s:%s" (t y0) (t y1) (string_of_q y0) (string_of_q y1)
     | _ -> "bad-args")
  | ["extrema"; cs] ->
    let c = qs_of_hexcsv cs in
    let one = { M.qnum = Z.one; M.qden = Z.one } and zero = { M.qnum = Z.zero; M.qden = Z.one } in
    let (mxl, mxu) = M.poly_max (nat_of_int 14) c zero one and (mnl, mnu) = M.poly_min (nat_of_int 14) c zero one in
    pr "min=%s:%s max=%s:%s" (string_of_q mnl) (string_of_q mnu) (string_of_q mxl) (string_of_q mxu)
  | _ -> "bad-args"

(* ---------- dispatch *)
let run_case (w : string list) : string =
  match w with
  | ["u16"; b; off] -> show_parse (M.parse_u16 (bytes_of_hex b) (nat_of_int (int_of_string off)))
  | ["i16"; b; off] -> show_parse (M.parse_i16 (bytes_of_hex b) (nat_of_int (int_of_string off)))
  | ["u32"; b; off] -> show_parse (M.parse_u32 (bytes_of_hex b) (nat_of_int (int_of_string off)))
  | ["i32"; b; off] -> show_parse (M.parse_i32 (bytes_of_hex b) (nat_of_int (int_of_string off)))
  | ["w16"; b; off; v] ->
    let (b', o) = M.write_u16 (bytes_of_hex b) (nat_of_int (int_of_string off)) (z_of_string v) in
    pr "ok %s %d" (hex_of_bytes b') (int_of_nat o)
  | ["w32"; b; off; v] ->
    let (b', o) = M.write_u32 (bytes_of_hex b) (nat_of_int (int_of_string off)) (z_of_string v) in
    pr "ok %s %d" (hex_of_bytes b') (int_of_nat o)
  | ["vu"; b; n; off] ->
    show_vu (M.parse_varuint32 (bytes_of_hex b) (nat_of_int (int_of_string n)) (nat_of_int (int_of_string off)))
  | ["vuspec"; b; n; off] ->
    show_vu (M.varuint_spec (bytes_of_hex b) (nat_of_int (int_of_string n)) (nat_of_int (int_of_string off)))
  | ["rgbdec"; c] ->
    let r = M.decode_rgb565 (z_of_string c) in
    pr "ok %s %s %s" (string_of_z r.M.red) (string_of_z r.M.green) (string_of_z r.M.blue)
  | ["rgbenc"; r; g; b] ->
    pr "ok %s" (string_of_z (M.encode_rgb565 { M.red = z_of_string r; M.green = z_of_string g; M.blue = z_of_string b }))
  | ["file"; r; b; script] -> run_file_script (route_of r) (bytes_of_hex b) script
  | "stats" :: rest -> run_stats rest
  | "poly" :: rest -> run_poly rest
  | ["build"; sc; fl; calls] -> run_build sc fl calls
  | "rth2traj" :: rest -> run_rth2traj rest
  | ["alloc"; n; k; ops] -> run_alloc n k ops
  | "xc" :: rest -> run_xc rest
  | "util" :: rest -> run_util rest
  | ["light"; "x"; _; _] -> "x"
  | ["light"; mode; "empty"; qs] -> run_light mode [] (if qs = "-" then [] else String.split_on_char ',' qs)
  | ["yaw"; mode; "empty"; qs] -> run_yaw ~empty:true mode [] (if qs = "-" then [] else String.split_on_char ',' qs)
  | ["traj"; mode; "empty"; qs] -> run_traj ~empty:true mode [] (if qs = "-" then [] else String.split_on_char ',' qs)
  | ["rth"; "empty"; pts; times] -> run_rth ~empty:true [] (ints_of_csv pts) (if times = "-" then [] else String.split_on_char ',' times)
  | ["light"; mode; b; qs] -> run_light mode (bytes_of_hex b) (if qs = "-" then [] else String.split_on_char ',' qs)
  | ["lightspec"; b; qs] -> run_lightspec (bytes_of_hex b) (if qs = "-" then [] else String.split_on_char ',' qs)
  | ["yaw"; mode; b; qs] -> run_yaw mode (bytes_of_hex b) (if qs = "-" then [] else String.split_on_char ',' qs)
  | ["traj"; mode; b; qs] -> run_traj mode (bytes_of_hex b) (if qs = "-" then [] else String.split_on_char ',' qs)
  | ["rth"; b; pts; times] -> run_rth (bytes_of_hex b) (ints_of_csv pts) (if times = "-" then [] else String.split_on_char ',' times)
  | "routes" :: k :: b :: _ ->
    let kd = (match k with "traj" -> M.KTraj | "light" -> M.KLight | "yaw" -> M.KYaw | "rth" -> M.KRth | _ -> failwith "kind") in
    let bytes = bytes_of_hex b in
    (match M.load kd M.Fd bytes, M.load kd M.Mem bytes with
     | M.Ok (b1, _), M.Ok (b2, _) ->
       let np = if kd = M.KLight then
           (* the battery of the harness seeks to these instants: does the program make progress up to them? *)
           List.exists (fun ms -> match M.light_seek light_fuel b1 (M.player_fresh b1) (Z.of_int ms) with M.Fuel -> true | _ -> false) [60000; 777]
         else false in
       pr "ok:%d:%s%s" (List.length b1) (if b1 = b2 then "same" else "blockdiff") (if np then ":noprogress" else "")
     | M.Ok _, _ | _, M.Ok _ -> "MISMATCH"
     | a, b -> pr "fail:%s:%s" (show_res_code (fun _ -> "0") a) (show_res_code (fun _ -> "0") b))
  | ["load"; k; r; b] ->
    let kd = (match k with "traj" -> M.KTraj | "light" -> M.KLight | "yaw" -> M.KYaw | "rth" -> M.KRth | _ -> failwith "kind") in
    show_res_code (fun (body, owned) -> pr "ok %d %s" (if owned then 1 else 0) (hex_of_bytes body)) (M.load kd (route_of r) (bytes_of_hex b))
  | ["crc"; c; b; _splits] -> pr "ok %s" (string_of_z (M.crc_update (z_of_string c) (bytes_of_hex b)))
  | ["crcspec"; b] -> pr "ok %s" (string_of_z (M.crc_spec (bytes_of_hex b)))
  | op :: _ -> "unknown-op " ^ op
  | [] -> "skip"

let () =
  try
    while true do
      let line = input_line stdin in
      let w = List.filter (fun s -> s <> "") (String.split_on_char ' ' (String.trim line)) in
      let out = try run_case w with e -> "exn " ^ Printexc.to_string e in
      print_string out; print_char '\n'
    done
  with End_of_file -> ()
