#!/usr/bin/env python3
"""check.py <property-id> [--tier quick|thorough] [--replay FILE]

One check = (1) rebuild the implementation harness from /repo's working tree,
(2) regenerate Gen/Generated.v from the C sources and re-check the Coq
development (full .vo build) plus Props/Properties_<id>.v (always recompiled,
Print Assumptions captured), (3) run the correspondence: the extracted Coq
models/specifications and the implementation on the same generated cases,
(4) on any broken obligation or disagreement look for a concrete failing
input and report it, (5) write evidence/<id>.json.
Exit 0: property held on everything explored.  Exit 1 + "VIOLATION ..." line
otherwise.  Exit 2: the machinery itself could not run (reported, no claim)."""
import os, sys, json, time, random, hashlib, importlib, subprocess, re, argparse

HERE = os.path.dirname(os.path.abspath(__file__))
sys.path.insert(0, HERE)
from sbv import build as B  # noqa: E402

VERIF = B.VERIF


def load_known():
    p = os.path.join(VERIF, "known_findings.json")
    if not os.path.exists(p):
        return []
    return json.load(open(p)).get("findings", [])


def theorem_names(pid):
    v = os.path.join(B.COQ, "theories", "Props", "Properties_%s.v" % pid)
    if not os.path.exists(v):
        return []
    txt = open(v).read()
    txt = re.sub(r"\(\*.*?\*\)", lambda m: "\n" * m.group(0).count("\n"), txt, flags=re.S)
    out = []
    for i, line in enumerate(txt.split("\n"), 1):
        m = re.match(r"\s*(Theorem|Lemma|Corollary|Example)\s+([A-Za-z0-9_']+)", line)
        if m:
            out.append((m.group(2), i))
    return out


def parse_assumptions(log):
    """Split the coqc output of a Properties file into per-theorem axiom lists.
    The file prints, for each theorem, 'Print Assumptions <name>.' output which
    is either 'Closed under the global context' or 'Axioms:' followed by
    '<name> : <type>' lines."""
    res = []
    cur = None
    for line in log.split("\n"):
        if line.startswith("Closed under the global context"):
            res.append([])
            cur = None
        elif line.startswith("Axioms:"):
            cur = []
            res.append(cur)
        elif cur is not None:
            # an axiom name starts a line in column 0; its type follows after ':' on the same or the next lines
            m = re.match(r"^([A-Za-z_][A-Za-z0-9_.']*)\s*(:|$)", line)
            if m and not line.startswith("File "):
                cur.append(m.group(1))
    return res


def run_side(exe, casefile, outfile, args=(), timeout=3600, env=None):
    with open(casefile, "rb") as fi, open(outfile, "wb") as fo:
        p = subprocess.run([exe] + list(args), stdin=fi, stdout=fo, stderr=subprocess.PIPE, timeout=timeout, env=env)
    return p.returncode, p.stderr.decode(errors="replace")


def run_cases(exe, lines, tag, args=(), env=None):
    os.makedirs(os.path.join(B.BUILD, "cases"), exist_ok=True)
    cf = os.path.join(B.BUILD, "cases", tag + ".in")
    of = os.path.join(B.BUILD, "cases", tag + ".out")
    with open(cf, "w") as f:
        for ln in lines:
            f.write(ln + "\n")
    try:
        rc, err = run_side(exe, cf, of, args=args, env=env)
    except subprocess.TimeoutExpired:
        print("check: %s did not finish %d cases within the time limit of one hour (machinery, not a verdict)" % (os.path.basename(exe), len(lines)))
        sys.exit(2)
    outs = open(of, errors="replace").read().split("\n")
    if outs and outs[-1] == "":
        outs.pop()
    return rc, err, outs


def main():
    ap = argparse.ArgumentParser()
    ap.add_argument("pid")
    ap.add_argument("--tier", default=os.environ.get("VERIF_TIER", "quick"))
    ap.add_argument("--replay", default=None)
    ap.add_argument("--no-coq", action="store_true", help="(development only) skip the Coq build")
    a = ap.parse_args()
    pid = a.pid
    tier = a.tier if a.tier in ("quick", "thorough") else "quick"
    seed = int(os.environ.get("VERIF_SEED", "20260929") or 0)
    t0 = time.time()
    gen = importlib.import_module("gens." + pid)

    violations = []   # (kind, description, replay-dict)
    notes = []

    # ---- 1. implementation
    try:
        impl = B.build_impl(getattr(gen, "VARIANT", "plain"))
    except B.BuildError as e:
        print("check: cannot build the implementation: %s\n%s" % (e.what, e.log[-3000:]))
        sys.exit(2)

    # ---- 2. Coq: translator, development, property file
    obligations = theorem_names(pid)
    discharged = 0
    axioms = {}
    broken = []
    coq_log = ""
    if not a.no_coq:
        try:
            B.gen_consts()
        except B.BuildError as e:
            broken.append("translator: " + e.what + " :: " + e.log.strip()[-400:])
        if not broken:
            rc, log = B.coq_make()
            coq_log = log
            if rc != 0:
                # a file that does not build matters to this property only if Properties_<pid>.v depends on it,
                # which shows as a failure of the (unconditional) compilation of that file below; other
                # failures are recorded as notes
                errs = re.findall(r"File \"([^\"]+)\", line (\d+)[^\n]*\n(?:[^\n]*\n){0,6}?Error:([^\n]*(?:\n[^\n]+){0,3})", log)
                for f, ln, msg in errs[:10]:
                    notes.append("%s:%s: %s" % (f, ln, " ".join(msg.split())[:300]))
            ok, plog = B.coq_compile_props(pid)
            if ok:
                discharged = len(obligations)
                al = parse_assumptions(plog)
                # Print Assumptions commands of the file, in order, match the outputs in order
                src = open(os.path.join(B.COQ, "theories", "Props", "Properties_%s.v" % pid)).read()
                src = re.sub(r"\(\*.*?\*\)", " ", src, flags=re.S)
                printed = re.findall(r"Print Assumptions\s+([A-Za-z0-9_.']+)\s*\.", src)
                for name, ax in zip(printed, al):
                    axioms[name.split(".")[-1]] = ax
            else:
                m = re.search(r"Properties_%s\.v\", line (\d+)" % pid, plog)
                if m:
                    ln = int(m.group(1))
                    discharged = len([1 for (_, l) in obligations if l < ln]) - 1
                    discharged = max(discharged, 0)
                if not any("Properties_%s" % pid in b for b in broken):
                    broken.append("Props/Properties_%s.v does not check: %s" % (pid, " ".join(plog.split())[-400:]))
    # thorough tier: the independent checker re-checks the compiled property file and everything it depends on
    coqchk_res = None
    if not a.no_coq and tier == "thorough" and not broken:
        t1 = time.time()
        rc, out = B.run(["timeout", "3000", "coqchk", "-silent", "-o", "-Q", "theories", "SB", "SB.Props.Properties_%s" % pid], cwd=B.COQ, timeout=3100)
        m = re.search(r"\* Axioms:(.*?)\n\s*\n\* Constants", out, flags=re.S)
        ax = [l.strip() for l in (m.group(1) if m else "").split("\n") if l.strip() and l.strip() != "<none>"]
        coqchk_res = {"exit": rc, "wall_s": round(time.time() - t1, 1), "axioms_of_all_loaded_libraries": ax,
                      "type_in_type": "relying on type-in-type: <none>" in out, "unsafe_fix": "unsafe (co)fixpoints: <none>" in out}
        if rc != 0:
            broken.append("coqchk rejects Props/Properties_%s.vo: %s" % (pid, " ".join(out.split())[-300:]))
    hits = B.forbidden_scan()
    if hits:
        broken.append("forbidden construct in the development: " + "; ".join(hits[:5]))

    try:
        model = B.build_model()
    except B.BuildError as e:
        print("check: cannot build the model executable: %s\n%s" % (e.what, e.log[-3000:]))
        sys.exit(2)

    # ---- 2b. kernel cross-check of the extracted program (vm_compute inside coqc vs OCaml)
    xc = None
    if not a.no_coq:
        try:
            import xcheck
            xc = xcheck.run(seed, pid, 32)
            if xc["mismatches"]:
                broken.append("kernel cross-check: extracted program and vm_compute disagree: " + "; ".join(xc["detail"])[:600])
        except B.BuildError as e:
            broken.append("kernel cross-check could not run: " + e.what + " :: " + e.log.strip()[-300:])

    # ---- 3. correspondence
    rng = random.Random(seed)
    if a.replay:
        rp = json.load(open(a.replay))
        cases = [(c, "replay") for c in rp.get("cases", [])]
    else:
        cases = list(gen.cases(rng, tier))
    lines = [c for c, _ in cases]
    stats = {}
    for _, k in cases:
        stats[k] = stats.get(k, 0) + 1
    rc_m, err_m, out_m = run_cases(model, lines, pid + ".model")
    # cases on which the model predicts that the implementation does not return (finding D8) are run only a few
    # times each run: every one of them costs the harness its whole time-out
    impl_lines = list(lines)
    if hasattr(gen, "impl_skip"):
        budget = getattr(gen, "IMPL_SKIP_KEEP", 6)
        for k, (ln, om) in enumerate(zip(lines, out_m)):
            if gen.impl_skip(ln, om):
                if budget > 0:
                    budget -= 1
                else:
                    impl_lines[k] = ""
    impl_env = dict(os.environ)
    impl_env.update(getattr(gen, "IMPL_ENV", {}))
    rc_i, err_i, out_i = run_cases(impl, impl_lines, pid + ".impl", args=getattr(gen, "IMPL_ARGS", ()), env=impl_env)
    # an instrumented (sanitizer) harness dies on the first report: record that case and carry on with the rest
    restarts = 0
    while len(out_i) < len(lines) and restarts < getattr(gen, "MAX_RESTARTS", 0):
        died_at = len(out_i)
        report = [l for l in err_i.split("\n") if "ERROR" in l or "runtime error" in l or "SUMMARY" in l]
        out_i.append("crash sanitizer: " + (" ".join(report[:2])[:300] if report else "harness died rc=%s" % rc_i))
        restarts += 1
        if died_at + 1 < len(lines):
            rc_i, err_i, more = run_cases(impl, impl_lines[died_at + 1:], pid + ".impl%d" % restarts, args=getattr(gen, "IMPL_ARGS", ()), env=impl_env)
            out_i.extend(more)
    if len(out_m) != len(lines) or len(out_i) != len(lines):
        print("check: harness protocol error: %d cases, %d model lines (rc %s), %d impl lines (rc %s)\n%s\n%s" % (
            len(lines), len(out_m), rc_m, len(out_i), rc_i, err_m[-1500:], err_i[-1500:]))
        if len(out_i) != len(lines) and len(out_m) == len(lines):
            # the implementation died on a case: that case is the finding
            idx = len(out_i)
            violations.append(("impl-died", "implementation harness died (rc %s) at case %d" % (rc_i, idx),
                               {"cases": [lines[idx]] if idx < len(lines) else [], "stderr": err_i[-2000:]}))
            lines = lines[:idx]
            out_m = out_m[:idx]
            cases = cases[:idx]
        else:
            sys.exit(2)

    known = [k for k in load_known() if k.get("property") == pid and k.get("status", "open") == "open"]
    known_hit = {}
    nontrivial = set()
    samples = []
    outcome_hist = {}
    ndiff = 0
    all_diffs = []
    corr_only = []
    for (case, klass), om, oi in zip(cases, out_m, out_i):
        if oi == "skipped-after-timeouts":
            continue
        if oi == "skip" and case != "":
            outcome_hist["not-run:model-predicts-no-return"] = outcome_hist.get("not-run:model-predicts-no-return", 0) + 1
            continue
        if oi == "timeout" or oi.startswith("crash "):
            if hasattr(gen, "abnormal_ok") and gen.abnormal_ok(case, om, oi):
                outcome_hist["outside-domain:" + oi.split(" ")[0]] = outcome_hist.get("outside-domain:" + oi.split(" ")[0], 0) + 1
                continue
            d = "implementation %s (model: %s)" % (oi, om[:120])
        else:
            d = gen.compare(case, om, oi)
        if d is None and hasattr(gen, "oracle"):
            # expectation that follows from the theorems alone (independent of the model run)
            d = gen.oracle(case, klass, om, oi)
        oc = gen.outcome(case, om, oi) if hasattr(gen, "outcome") else om.split(" ")[0]
        outcome_hist[oc] = outcome_hist.get(oc, 0) + 1
        if gen.nontrivial(case, om, oi):
            nontrivial.add(hashlib.sha1(case.encode()).hexdigest())
        if len(samples) < 6 and (len(samples) < 3 or klass not in [s["class"] for s in samples]):
            samples.append({"class": klass, "case": case[:400], "model": om[:400], "impl": oi[:400]})
        if d is None:
            continue
        key = gen.finding_key(case, om, oi, d) if hasattr(gen, "finding_key") else d
        matched = None
        for k in known:
            if re.search(k["match"], key):
                matched = k
                break
        if matched:
            known_hit.setdefault(matched["id"], []).append(case)
            continue
        ndiff += 1
        rp0 = {"cases": [case], "model": om, "impl": oi, "class": klass, "key": key}
        if hasattr(gen, "property_holds") and gen.property_holds(case, klass, om, oi):
            # model and implementation differ on this case, but what the property itself demands holds on it (e.g. another
            # allocation pattern without leak or double free): the correspondence is broken, this case is not a failing input
            corr_only.append(("correspondence", d + " [the property's own demands hold on this case]", rp0))
            continue
        all_diffs.append(("disagreement", d, rp0))
    # report the three shortest failing cases (minimisation by selection: generators emit many sizes of each shape)
    all_diffs.sort(key=lambda v: len(v[2]["cases"][0]))
    violations.extend(all_diffs[:3])
    if corr_only and not all_diffs:
        # the correspondence no longer checks and no generated case violates the property itself
        corr_only.sort(key=lambda v: len(v[2]["cases"][0]))
        kind, d, rp0 = corr_only[0]
        rp0 = dict(rp0)
        rp0["no_failing_input"] = True
        rp0["correspondence_cases"] = len(corr_only)
        rp0["relation"] = "extracted model of %s = implementation (differential run); theorems of Props/Properties_%s.v are about that model" % (pid, pid)
        violations.append((kind, "the implementation no longer corresponds to the model on %d case(s), none of which violates the property's own demands: %s" % (len(corr_only), d), rp0))

    # a broken proof obligation (translator, proof, extraction) is not by itself a violation: look harder for a
    # concrete failing input -- a second, larger stream (the thorough generator under another seed, capped) through
    # model, implementation and the property's oracle -- before reporting "no-failing-input-found"
    search_note = None
    if broken and not violations and not a.replay:
        import itertools
        t1 = time.time()
        extra = list(itertools.islice(gen.cases(random.Random(seed + 1), "thorough"), int(os.environ.get("VERIF_SEARCH_CASES", "20000"))))
        xl = [c for c, _ in extra]
        try:
            _, _, xm = run_cases(model, xl, pid + ".search.model")
            _, _, xi = run_cases(impl, xl, pid + ".search.impl", args=getattr(gen, "IMPL_ARGS", ()), env=impl_env)
        except Exception as e:     # the search is best effort
            xm, xi = [], []
            search_note = "search could not run: %s" % e
        found = 0
        for (case, klass), om, oi in zip(extra, xm, xi):
            if oi in ("skip", "skipped-after-timeouts", "timeout") or oi.startswith("crash "):
                d = None if oi in ("skip", "skipped-after-timeouts") else "implementation %s (model: %s)" % (oi, om[:120])
                if d and hasattr(gen, "abnormal_ok") and gen.abnormal_ok(case, om, oi):
                    d = None
            else:
                d = gen.compare(case, om, oi)
                if d is None and hasattr(gen, "oracle"):
                    d = gen.oracle(case, klass, om, oi)
            if d is None:
                continue
            key = gen.finding_key(case, om, oi, d) if hasattr(gen, "finding_key") else d
            if any(re.search(k["match"], key) for k in known):
                continue
            found += 1
            if len(violations) < 3:
                violations.append(("disagreement-found-by-search", d, {"cases": [case], "model": om, "impl": oi, "class": klass, "key": key}))
        search_note = search_note or "searched %d further cases in %.0fs: %d failing" % (len(xi), time.time() - t1, found)
        ndiff += found
    if broken and not violations:
        violations.append(("obligation", "; ".join(broken)[:1500], {"cases": [], "broken": broken, "no_failing_input": True}))

    # ---- 4. report
    os.makedirs(os.path.join(VERIF, "replays"), exist_ok=True)
    os.makedirs(os.path.join(VERIF, "evidence"), exist_ok=True)
    for k in known:
        if k["id"] in known_hit:
            print("KNOWN-FINDING: property=%s %s (%d case(s) this run)" % (pid, k["what"], len(known_hit[k["id"]])))
        elif k.get("always_report", True):
            print("KNOWN-FINDING: property=%s %s (not exercised this run)" % (pid, k["what"]))
    exit_code = 0
    for kind, desc, rp in violations:
        rp = dict(rp)
        rp.update({"property": pid, "kind": kind, "description": desc, "seed": seed, "tier": tier,
                   "theorems": [n for n, _ in obligations], "broken_obligations": broken,
                   "replay_cmd": "python3 tools/check.py %s --replay <this file>" % pid})
        h = hashlib.sha1(json.dumps(rp, sort_keys=True).encode()).hexdigest()[:12]
        path = os.path.join("replays", "%s-%s.json" % (pid, h))
        with open(os.path.join(VERIF, path), "w") as f:
            json.dump(rp, f, indent=1)
        tail = " no-failing-input-found" if rp.get("no_failing_input") else ""
        print("VIOLATION property=%s replay=%s%s" % (pid, path, tail))
        print("  " + desc[:600])
        exit_code = 1

    wall = time.time() - t0
    tb = [
        "Coq 8.16.1 kernel incl. vm_compute (no native_compute)",
        "tools/gen_consts.py (regex translator for tables, enums, limits)",
        "extraction: ExtrOcamlBasic + ExtrOcamlZBigInt directives and two Extract Constant (Z.gcd, Z.ggcd on zarith), listed in DESIGN.md section 8; OCaml 4.13.1 + zarith; ocaml/driver.ml (conversions, printing, threading of stateful cases); cross-checked on every run against vm_compute inside coqc (coverage.kernel_cross_check)",
        "harness/sbh.cpp, tools/gens/%s.py, tools/check.py; gcc 12 -O1 -ffp-contract=off" % pid,
        "hand-written Gallina models of the C code, tied by this correspondence run",
    ] + list(getattr(gen, "TRUSTED", []))
    all_ax = sorted(set(x for v in axioms.values() for x in v))
    ev = {
        "property_id": pid,
        "tier": tier,
        "seed": seed,
        "level": "proof",
        "coverage": {
            "obligations": max(len(obligations), 1),
            "discharged": discharged if obligations else 0,
            "checker_cmd": "cd coq && coq_makefile -f _CoqProject -o Makefile && make -j16 && coqc -Q theories SB theories/Props/Properties_%s.v" % pid,
            "trusted_base": tb,
            "theorems": [{"name": n, "axioms": axioms.get(n, None)} for n, _ in obligations],
            "axioms_used": all_ax,
            "broken_obligations": broken,
            "failing_input_search": search_note,
            "other_build_notes": notes,
            "evaluations": len(lines),
            "distinct_nontrivial": len(nontrivial),
            "rule": getattr(gen, "RULE", ""),
            "samples": samples,
            "traces_validated_against_impl": len(lines),
            "disagreements": ndiff,
            "case_classes": stats,
            "outcome_histogram": outcome_hist,
            "known_findings_hit": {k: len(v) for k, v in known_hit.items()},
            "explanation": getattr(gen, "EXPLANATION", ""),
            "kernel_cross_check": xc,
            "coqchk": coqchk_res,
        },
        "assumptions": list(getattr(gen, "ASSUMPTIONS", [])) + ["axioms (Print Assumptions): " + (", ".join(all_ax) if all_ax else "none")],
        "wall_s": round(wall, 2),
        "violations": len(violations),
    }
    if not a.replay and not a.no_coq and not os.environ.get("VERIF_NO_EVIDENCE"):
        with open(os.path.join(VERIF, "evidence", pid + ".json"), "w") as f:
            json.dump(ev, f, indent=1)
    print("check %s tier=%s seed=%d: %d cases (%d distinct non-trivial), %d/%d obligations, %d disagreement(s), %d known finding(s) hit, %.1fs" % (
        pid, tier, seed, len(lines), len(nontrivial), discharged, len(obligations), ndiff, len(known_hit), wall))
    sys.exit(exit_code)


if __name__ == "__main__":
    main()
