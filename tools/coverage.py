#!/usr/bin/env python3
"""coverage.py [ids...]  (development tool, decides nothing)
Builds the library of /repo's working tree with gcov instrumentation, feeds it the case files the last quick/thorough
runs left in build/cases/<id>.impl.in and lists the source lines and branches of /repo/src that no generated case
reached.  Used to aim the generators at what the correspondence does not exercise yet."""
import os, sys, glob, json, gzip, subprocess, shutil
HERE = os.path.dirname(os.path.abspath(__file__))
sys.path.insert(0, HERE)
from sbv import build as B

def main():
    ids = sys.argv[1:] or ["C%02d" % i for i in range(1, 21)]
    objdir = os.path.join(B.BUILD, "obj-cov")
    for f in glob.glob(os.path.join(objdir, "*.gcda")):
        os.unlink(f)
    exe = B.build_impl("cov")
    for pid in ids:
        cf = os.path.join(B.BUILD, "cases", pid + ".impl.in")
        if not os.path.exists(cf):
            print("no case file for", pid); continue
        import importlib
        gen = importlib.import_module("gens." + pid)
        env = dict(os.environ); env.update(getattr(gen, "IMPL_ENV", {}))
        with open(cf, "rb") as fi:
            p = subprocess.run([exe] + list(getattr(gen, "IMPL_ARGS", ())), stdin=fi, stdout=subprocess.DEVNULL, stderr=subprocess.PIPE, env=env)
        print(pid, "rc", p.returncode)
    out = os.path.join(B.BUILD, "cov")
    shutil.rmtree(out, ignore_errors=True); os.makedirs(out)
    gcnos = [g for g in glob.glob(os.path.join(objdir, "*.gcno")) if not os.path.basename(g).startswith(("sbh.", "alloc_wrap."))]
    subprocess.run(["gcov", "-b", "-j"] + gcnos, cwd=out, stdout=subprocess.DEVNULL, stderr=subprocess.DEVNULL)
    agg = {}
    for jf in glob.glob(os.path.join(out, "*.gcov.json.gz")):
        d = json.load(gzip.open(jf))
        for f in d["files"]:
            fn = os.path.normpath(os.path.join(B.REPO, "src", f["file"])) if not os.path.isabs(f["file"]) else f["file"]
            if not fn.startswith(B.REPO + "/src") and not fn.startswith(B.REPO + "/include"):
                continue
            a = agg.setdefault(fn, {})
            for ln in f["lines"]:
                e = a.setdefault(ln["line_number"], [0, []])
                e[0] += ln["count"]
                br = [b["count"] for b in ln["branches"] if not b.get("throw")]
                if br:
                    if not e[1]: e[1] = br
                    elif len(e[1]) == len(br): e[1] = [x + y for x, y in zip(e[1], br)]
    tot = cov = 0
    for fn in sorted(agg):
        src = open(fn, errors="replace").read().split("\n")
        miss = [l for l, (c, _) in sorted(agg[fn].items()) if c == 0]
        pbr = [l for l, (c, br) in sorted(agg[fn].items()) if c > 0 and br and min(br) == 0]
        tot += len(agg[fn]); cov += len(agg[fn]) - len(miss)
        print("== %s: %d/%d lines" % (os.path.relpath(fn, B.REPO), len(agg[fn]) - len(miss), len(agg[fn])))
        for l in miss:
            print("   -%5d: %s" % (l, src[l - 1].strip()[:110]))
        for l in pbr:
            print("   b%5d: %s   %s" % (l, src[l - 1].strip()[:90], agg[fn][l][1]))
    print("TOTAL %d/%d" % (cov, tot))

if __name__ == "__main__":
    main()
