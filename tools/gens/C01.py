"""C01: trajectory position and durations against the exact model; float
results within the tolerance computed by the Coq-defined formula."""
from fractions import Fraction
from .common import hexs, fhex, frac_of_bits, parse_q
from . import trajgen as G

RULE = ("abstract trajectories (scale 1..127, 0..8 segments, every combination of constant/linear/cubic/degree-7 per axis, "
        "durations from {1,2,999,1000,59999,60000,60001,65535} and random, coordinates incl. +-32767/-32768, any stored yaw) "
        "encoded by the generator; fresh-player position queries at, one ulp before and after every segment boundary, interior "
        "fractions, 0, -0, negative, +-inf, far future; start/end helpers; the five ways of asking the duration; blocks longer than 64 KiB probed beyond "
        "byte offset 65536; plus the trajectory blocks of the repository fixtures. Non-trivial = at least one segment and one successful interior query.")
EXPLANATION = ("positions: |impl - exact| <= tol_at (Coq, Spec/TrajSpec.v) + 2^-22 |exact| per component; header fields, "
               "durations and segment counts exact")
ASSUMPTIONS = ["float32 rounding bound tol_at is an assumed (not proved) bound with a safety factor 4; zero-duration segments are not probed at their own instant"]
TRUSTED = ["Spec/TrajSpec.v tol_at: assumed numeric bound"]

KINDS = "p"


def queries(rng, tr, n, kinds):
    ts = G.probe_times(rng, tr, n)
    return ",".join(rng.choice(kinds) + fhex(t) for t in ts)


def fixture_blocks():
    from . import skyb
    out = []
    for name, data in skyb.fixtures():
        for ty, body in skyb.parse_blocks(data):
            if ty == 1 and len(body) >= 9:
                out.append(list(body))
    return out


def cases(rng, tier):
    n = 30000 if tier == "thorough" else 1500
    for b in fixture_blocks():
        # probe fixtures at a few times (they can be long)
        ts = [0.0, 1.0, 2.5, 10.0, 33.3, 100.0, float("inf")]
        yield ("traj f %s %s" % (hexs(b), ",".join("p" + fhex(t) for t in ts)), "fixture")
    # all 256 header bytes on a one-segment trajectory
    for hb in range(256):
        degs = [{0: 0, 1: 1, 2: 3, 3: 7}[(hb >> s) & 3] for s in (0, 2, 4, 6)]
        tr = G.rand_traj(rng, nseg=2, degs=degs)
        yield ("traj f %s %s" % (hexs(G.encode(tr)), queries(rng, tr, 8, KINDS)), "hdr-all")
        # ... and the shortest blocks there are: a single segment of each shape (the bare hold is 12 bytes)
        tr = G.rand_traj(rng, nseg=1, degs=degs)
        yield ("traj f %s %s,d00000000" % (hexs(G.encode(tr)), queries(rng, tr, 5, KINDS)), "hdr-all-single")
    # the object made by sb_trajectory_init_empty (on memory full of garbage)
    yield ("traj f empty p00000000,p3f800000,pbf800000,p7f800000,d00000000", "init-empty")
    yield ("traj h empty p3f800000,v3f800000,a3f800000,d00000000,p00000000", "init-empty")
    # the last segment has zero duration (a final jump): the end helper reports its end point; positions are probed
    # strictly before it only
    for i in range(40 if tier == "thorough" else 12):
        tr = G.rand_traj(rng, nseg=rng.choice([1, 2, 3]))
        tr["segs"].append(dict(dur=0, x=[rng.randint(-6000, 6000)], y=rng.choice([[], [rng.randint(-6000, 6000)]]), z=[rng.randint(0, 6000)], yaw=rng.choice([[], [900]])))
        bs = G.boundaries(tr)
        ts = [G.f32(bs[-1] / 1000.0 * f) for f in (0.1, 0.5, 0.9)] + [0.0]
        yield ("traj f %s %s,d00000000" % (hexs(G.encode(tr)), ",".join("p" + fhex(t) for t in ts)), "trailing-zero-duration")
    # blocks longer than 64 KiB: segments, boundaries and the end beyond byte offset 65536
    for i in range(10 if tier == "thorough" else 3):
        tr = G.rand_traj(rng, nseg=rng.choice([2, 3, 5]))
        st = tr["start"]
        pre = G.long_prefix(rng, st[0], st[1], st[2], deg=rng.choice([3, 7]), flat_z=False, dur=rng.choice([1, 10, 50]))
        tail = dict(scale=tr["scale"], use_yaw=tr["use_yaw"], start=st, segs=tr["segs"])
        t0 = sum(s["dur"] for s in pre) / 1000.0
        ts = [G.f32(t0 + t) for t in G.probe_times(rng, tail, 14)] + [G.f32(t0 * 0.5), 0.0, float("inf")]
        tr["segs"] = pre + tr["segs"]
        yield ("traj f %s %s,d00000000" % (hexs(G.encode(tr)), ",".join("p" + fhex(t) for t in ts)), "long-block")
        yield ("traj h %s %s,d00000000,p%s" % (hexs(G.encode(tr)), ",".join("p" + fhex(t) for t in ts[:6]), fhex(ts[2])), "long-block-history")
    for i in range(n):
        tr = G.rand_traj(rng, allow_zero_dur=(i % 10 == 0))
        q = queries(rng, tr, 12, KINDS)
        if any(s["dur"] == 0 for s in tr["segs"]):
            # not probed at the instant of a zero-duration segment
            bs = G.boundaries(tr)
            zs = set(bs[k] for k, s in enumerate(tr["segs"]) if s["dur"] == 0)
            qs = [x for x in q.split(",") if x]
            keep = []
            for x in qs:
                u = int(x[1:], 16)
                t = frac_of_bits(u)
                if t is None:
                    t = Fraction(0) if (u >> 31) else None      # -inf clamps to 0
                elif t < 0:
                    t = Fraction(0)
                if t is None:
                    if max(bs) not in zs:
                        keep.append(x)                           # +inf lands on the end point
                elif all(abs(t - Fraction(z, 1000)) > Fraction(1, 500) for z in zs):
                    keep.append(x)
            q = ",".join(keep) if keep else "-"
            klass = "zero-dur"
        else:
            klass = "gen"
        if q != "-" and i % 3 == 0:
            q = q + ",d00000000"
        yield ("traj f %s %s" % (hexs(G.encode(tr)), q), klass)
        if klass == "gen" and i % 4 == 0 and len(tr["segs"]) >= 2:
            # every way of asking for the duration, also of a player that has been used: interior queries first
            bs = G.boundaries(tr)
            ks = [k for k in range(len(bs) - 1) if bs[k + 1] > bs[k]]
            rng.shuffle(ks)
            hq = []
            for k in ks[:4]:
                t = G.f32((bs[k] + (bs[k + 1] - bs[k]) * rng.choice([0.25, 0.5, 0.75])) / 1000.0)
                hq += ["p" + fhex(t), "d00000000"]
            if not hq:
                continue
            yield ("traj h %s %s" % (hexs(G.encode(tr)), ",".join(hq)), "used-player-duration")


def _cmp_vec(m, i, tol):
    ms, is_ = m.split(","), i.split(",")
    for k, (a, b) in enumerate(zip(ms, is_)):
        ex = parse_q(a)
        f = frac_of_bits(int(b, 16))
        if f is None:
            return "component %d not finite" % k
        t = tol + abs(ex) / (1 << 22)
        if abs(f - ex) > t:
            return "component %d: impl=%s exact=%s tol=%s" % (k, float(f), float(ex), float(t))
    return None


def compare_traj(case, om, oi, check_offsets=False):
    tm, ti = om.split(" "), oi.split(" ")
    if tm[0] != ti[0]:
        return "init model=%s impl=%s" % (tm[0], ti[0])
    if not om.startswith("init:0"):
        return None
    if len(tm) != len(ti):
        return "token count model=%d impl=%d: %s | %s" % (len(tm), len(ti), om[:200], oi[:200])
    for a, b in zip(tm[1:], ti[1:]):
        if a.startswith("scale=") or a.startswith("yaw=") or a.startswith("nseg="):
            if a != b:
                return "header model=%s impl=%s" % (a, b)
        elif a.startswith("start="):
            d = _cmp_vec(a[6:], b[6:], Fraction(0))
            if d:
                return "start position " + d
        elif a.startswith("dur="):
            md = a[4:]
            f = b[4:].split(",")
            if md.startswith("e") or md.startswith("o") or md.startswith("f"):
                # model: duration query fails (e.g. truncated segment): implementation must fail too
                if f[2] == "0" and f[4] == "0":
                    return "duration: model=%s impl=%s" % (a, b)
                continue
            ms = int(md)
            if not (int(f[0]) == ms and f[2] == "0" and int(f[3]) == ms and f[4] == "0" and int(f[5]) == ms):
                return "duration msec model=%d impl=%s" % (ms, b)
            sec = frac_of_bits(int(f[1], 16))
            if sec is None or abs(sec - Fraction(ms, 1000)) > Fraction(ms, 1000) / (1 << 23):
                return "duration sec model=%d ms impl=%s" % (ms, f[1])
            if abs(int(f[6]) - Fraction(ms, 1000)) > 1:
                return "stats duration_sec model=%d ms impl=%s" % (ms, f[6])
            if len(f) > 7 and f[7] != "same":
                return "the statistics duration depends on the other components computed in the same pass: %s" % f[7]
        else:
            pa, pb = a.split(":"), b.split(":")
            if pa[0] != pb[0]:
                return "token kind model=%s impl=%s" % (a, b)
            if pa[1] != pb[1]:
                return "query result code model=%s impl=%s" % (a[:80], b[:80])
            if pa[0] == "d":
                if pa[1] == "0" and pa[2] != pb[2]:
                    return "player total duration: model=%s impl=%s" % (a, b)
                if pb[-1] == "X":
                    return "history-dependent total duration: %s" % b[:100]
                continue
            if pa[1] == "0":
                d = _cmp_vec(pa[2], pb[2], parse_q(pa[3]))
                if d:
                    return "query %s: %s" % (pa[0], d)
                if len(pb) > 4 and pb[4] == "X":
                    return "history-dependent answer: %s" % b[:100]
    return None


def compare(case, om, oi):
    return compare_traj(case, om, oi)


def nontrivial(case, om, oi):
    return om.startswith("init:0") and "nseg=0" not in om and ":0:" in om


def outcome(case, om, oi):
    t = om.split(" ")
    if not om.startswith("init:0"):
        return t[0]
    bad = [x.split(":")[1] for x in t if len(x) > 2 and x[1] == ":" and x[2] != "0"]
    return "init:0" + ("+" + "+".join(sorted(set(bad))) if bad else "")
