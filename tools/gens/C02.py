"""C02: light colour / pyro / ended / next event against the polling model
(transcription of the executor) and against the event-driven specification."""
from fractions import Fraction
from .common import hexs, parse_q
from . import lightgen as L

RULE = ("structured programs over all opcodes (set/fade colour, gray, black, white, channel colours, sleep, wait-until, "
        "reset-clock, loops nested 0..4 (the supported depth) with counts {0,1,2,3,255}, forward/backward/out-of-range jumps, triggered jumps, pyro, "
        "zero durations, unknown opcodes, truncated arguments, end markers), every loop iteration and jump cycle consuming "
        "time; fresh-player queries (colour, pyro, seek) at multiples of 20 ms, +-1 around them, random instants, 2^24-1; "
        "programs whose live part lies beyond byte 255 / 65535, one player queried repeatedly; each program is run through the polling model ('light') and the event-driven specification ('lightspec'), plus the "
        "three light programs of the repository fixtures. Non-trivial = program of >= 2 commands with a colour answer that is not black "
        "or a pyro/seek answer.")
EXPLANATION = ("pyro/ended exact; colour exact outside fades, inside a fade exact-1-2^-12 < channel <= exact+2^-12 (binary32 "
               "evaluation truncated); next event exact below 2^24")
ASSUMPTIONS = ["the C API attaches no signal source: channel colours are black, triggers never fire",
               "clock conversions through binary32 are the identity below 2^24 ms"]


def fixture_programs():
    from . import skyb
    out = []
    for name, data in skyb.fixtures():
        for ty, body in skyb.parse_blocks(data):
            if ty == 2:
                out.append(list(body))
    return out


def cases(rng, tier):
    n = 40000 if tier == "thorough" else 2500
    for prog in fixture_programs():
        ts = [0, 500, 1000, 5000, 10000, 12345, 30000, 60000, 100000]
        q = ",".join("c%d" % t for t in ts) + "," + ",".join("s%d" % t for t in ts[:4])
        yield ("light f %s %s" % (hexs(prog), q), "fixture")
        yield ("lightspec %s %s" % (hexs(prog), q), "fixture-spec")
    yield ("light f empty c0,p0,s0,c1000,s1000,c16777215", "init-empty")
    yield ("light h empty c1000,c0,s500,p60000", "init-empty")
    for label, prog in L.special_programs(rng, tier == "thorough", deep=False):
        ts = L.probe_times(rng, 14, cyclic=True)
        q = ",".join(rng.choice("cccps") + str(t) for t in ts)
        yield ("light f %s %s" % (hexs(prog), q), label)
        yield ("lightspec %s %s" % (hexs(prog), q), label + "-spec")
    # one player queried repeatedly (the answers "reported" also after other queries): forwards, backwards, at command
    # starts; the history-mode model is the polling model threaded the same way (C09 proves it equal to fresh answers)
    for i in range(n // 8):
        prog = L.rand_program(rng, maxdepth_cap=4)
        ts = L.probe_times(rng, 12, cyclic=L.has_cycle(prog))
        seq = [rng.choice("cccps") + str(rng.choice(ts)) for _ in range(16)]
        yield ("light h %s %s" % (hexs(prog), ",".join(seq)), "history")
    for i in range(n):
        prog = L.rand_program(rng, maxdepth_cap=4)
        ts = L.probe_times(rng, 10, cyclic=L.has_cycle(prog))
        q = ",".join(rng.choice("cccps") + str(t) for t in ts)
        yield ("light f %s %s" % (hexs(prog), q), "gen")
        yield ("lightspec %s %s" % (hexs(prog), q), "gen-spec")


def compare_light(case, om, oi):
    tm, ti = om.split(" "), oi.split(" ")
    if om == "" and oi == "":
        return None
    if len(tm) != len(ti):
        return "token count model=%s impl=%s" % (om[:120], oi[:120])
    for a, b in zip(tm, ti):
        if a.endswith(":noprogress"):
            return "model: no progress (program outside the property's domain) but implementation answered %s" % b
        if a[0] != b[0]:
            return "kind model=%s impl=%s" % (a, b)
        if a[0] == "c":
            pa = a.split(":")
            ex = [parse_q(x) for x in pa[1].split(",")]
            im = [int(x) for x in b[2:].split(",")]
            infade = pa[2] == "1"
            for k in range(3):
                if infade:
                    ok = ex[k] - 1 - Fraction(1, 4096) < im[k] <= ex[k] + Fraction(1, 4096)
                else:
                    ok = ex[k] == im[k]
                if not ok:
                    return "colour model=%s impl=%s" % (a, b)
        elif a[0] == "p":
            if a != b:
                return "pyro model=%s impl=%s" % (a, b)
        else:
            ea, na = a[2:].split(",")
            eb, nb = b[2:].split(",")
            if ea != eb:
                return "ended model=%s impl=%s" % (a, b)
            if int(na) < (1 << 24):
                if na != nb:
                    return "next event model=%s impl=%s" % (a, b)
            elif int(nb) < (1 << 24):
                return "next event model=%s impl=%s" % (a, b)
    return None


def compare(case, om, oi):
    return compare_light(case, om, oi)


def nontrivial(case, om, oi):
    return len(case.split(" ")[2 if case.startswith("lightspec") else 3]) >= 6 and any(
        (t[0] == "c" and not t.startswith("c:0,0,0")) or t[0] in "ps" for t in om.split(" ") if t)


def outcome(case, om, oi):
    return "noprogress" if "noprogress" in om else "answered"


def abnormal_ok(case, om, oi):
    """A program that makes no progress (some loop iteration / jump cycle consumes no time) is outside
    C02's domain; the implementation does not return on it (known finding D8, reported under C03)."""
    return oi == "timeout" and "noprogress" in om


def impl_skip(case, om):
    """the model predicts that the call does not return (zero-time cycle, finding D8)"""
    return "noprogress" in om
