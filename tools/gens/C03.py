"""C03: arbitrary bytes are handled without memory errors, UB or hangs.  The
implementation is built with AddressSanitizer + UndefinedBehaviourSanitizer
(float-cast-overflow included) and run on show files through both routes and on
raw blocks of the four kinds, with a fixed battery of every public query; the
model supplies the expected verdict (an error code, or results), and a report,
crash or timeout where the model terminates normally is a violation."""
from .common import hexs, fhex
from . import filegen, lightgen

VARIANT = "asan"
MAX_RESTARTS = 40
IMPL_ENV = {"ASAN_OPTIONS": "detect_leaks=0:abort_on_error=0:exitcode=66:allocator_may_return_null=1",
            "UBSAN_OPTIONS": "halt_on_error=1:print_stacktrace=0:exitcode=66"}
RULE = ("show files: repository fixtures and generated valid files, every prefix (sampled in quick), single-byte "
        "boundary-value edits, length-field edits, splices, duplications, random strings, each through both loading routes and "
        "the four kinds with the full query battery ('routes'); raw blocks: the same mutations of trajectory / yaw / RTH / light "
        "blocks handed directly to the *_init_from_buffer functions with queries at times before start, interior, boundaries, "
        "far future and infinity; light programs include zero-time cycles (finding D8). Non-trivial = the object loaded and "
        "at least one query ran.")
EXPLANATION = ("verdict per case: clean (model and sanitizer-instrumented implementation agree as in C06 / C01 / C10 / C11 / C02) "
               "or an error code on both sides; any sanitizer report, crash signal or timeout is a violation unless the model "
               "says the light program makes no progress (D8)")
ASSUMPTIONS = ["gcc 12 -fsanitize=address,undefined,float-cast-overflow; inputs are placed against a PROT_NONE guard page as well",
               "UB that no sanitizer observes (e.g. strict aliasing) is outside what this check can see"]
TRUSTED = ["sanitizer runtime verdicts"]


def raw_blocks(rng, tier):
    """(kind, bytes) of raw blocks and their mutations"""
    from . import trajgen, yawgen
    from .C11 import rand_plan, encode as rth_encode
    thorough = tier == "thorough"
    for _ in range(600 if thorough else 60):
        tr = trajgen.rand_traj(rng, nseg=rng.choice([0, 1, 2, 4]), maxdeg=rng.choice([1, 3, 7]), allow_zero_dur=True)
        for klass, d in filegen.mutations(rng, bytes(b & 255 for b in trajgen.encode(tr)), 14, 8, 6):
            yield ("traj", klass, d)
        y = yawgen.rand_yaw(rng, n=rng.choice([0, 1, 3, 6]), allow_zero_dur=True)
        for klass, d in filegen.mutations(rng, bytes(b & 255 for b in yawgen.encode(y)), 10, 6, 4):
            yield ("yaw", klass, d)
        pl = rth_encode(*rand_plan(rng, rng.random() < 0.3))
        for klass, d in filegen.mutations(rng, bytes(b & 255 for b in pl), 12, 8, 6):
            yield ("rth", klass, d)
        prog = lightgen.rand_program(rng) if rng.random() < 0.85 else lightgen.nonprogress_program(rng)
        for klass, d in filegen.mutations(rng, bytes(b & 255 for b in prog), 6, 4, 3):
            yield ("light", klass, d)
    for _ in range(2000 if thorough else 150):
        d = bytes(rng.randrange(256) for _ in range(rng.choice([0, 1, 2, 3, 8, 9, 10, 40, 200])))
        yield (rng.choice(["traj", "yaw", "rth", "light"]), "random", d)
    for label, prog in lightgen.special_programs(rng, thorough):
        yield ("light", label, bytes(prog))
    # blocks longer than 64 KiB of every kind (offsets that do not fit 16 bits)
    for _ in range(3 if thorough else 1):
        tr = trajgen.rand_traj(rng, nseg=3, maxdeg=3)
        st = tr["start"]
        tr["segs"] = trajgen.long_prefix(rng, st[0], st[1], st[2], deg=1, flat_z=False) + tr["segs"]
        tb = bytes(b & 255 for b in trajgen.encode(tr))
        yield ("traj", "long-block", tb)
        yield ("traj", "long-block-cut", tb[:rng.randint(min(65536, len(tb) - 2), len(tb) - 1)])
        y = yawgen.rand_yaw(rng, n=16500 + rng.randint(0, 600))
        yb = bytes(b & 255 for b in yawgen.encode(y))
        yield ("yaw", "long-block", yb)
        yield ("yaw", "long-block-cut", yb[:rng.randint(min(65536, len(yb) - 2), len(yb) - 1)])
    # altitude segments that are really of lower degree stored as cubics (the closed forms behind touches / solve)
    from . import statgen
    for _ in range(40 if thorough else 12):
        tr, _sc, _A, _k = statgen.closed_form_traj(rng)
        if max(max(s["z"]) if s["z"] else 0 for s in tr["segs"]) <= 32767:
            yield ("traj", "closed-form", bytes(b & 255 for b in trajgen.encode(tr)))
    # long varints / deep nesting / huge durations in light programs
    yield ("light", "special", bytes([0x02] + [0x80] * 12 + [0x01, 0x04, 1, 2, 3, 5, 0]))
    yield ("light", "special", bytes([0x0c, 2] * 6 + [0x02, 1] + [0x0d] * 6 + [0x04, 9, 9, 9, 50, 0]))
    yield ("light", "special", bytes([0x02, 0xff, 0xff, 0xff, 0xff, 0xff, 0xff, 0xff, 0xff, 0x7f, 0x04, 1, 1, 1, 1]))
    yield ("light", "special", bytes([0x10, 0, 1, 2, 5, 0x11, 3, 4, 5, 5, 0x13, 0x35, 0x03, 0x13, 0x00, 0]))


TIMES = [-1.0, 0.0, 0.001, 0.5, 1.0, 2.5, 59.999, 60.0, 1e9, float("inf"), float("-inf")]


def cases(rng, tier):
    for klass, data in filegen.corpus(rng, tier):
        h = hexs(data)
        for kind in ("traj", "light", "yaw", "rth"):
            yield ("routes %s %s" % (kind, h), "file-" + klass)
    for kind, klass, d in raw_blocks(rng, tier):
        h = hexs(d)
        if kind == "traj":
            qs = ",".join(k + fhex(t) for t in TIMES for k in "pva")
            yield ("traj h %s %s" % (h, qs), "raw-traj-" + klass)
            yield ("stats takeoff %s %s %s %s" % (h, fhex(2.5), fhex(2.0), fhex(4.0)), "raw-traj-" + klass)
            yield ("stats landing %s %s %s" % (h, fhex(2.5), fhex(0.05)), "raw-traj-" + klass)
            yield ("stats bbox %s" % h, "raw-traj-" + klass)
        elif kind == "yaw":
            qs = ",".join(k + fhex(t) for t in TIMES for k in "yr") + ",d00000000"
            yield ("yaw h %s %s" % (h, qs), "raw-yaw-" + klass)
        elif kind == "rth":
            yield ("rth %s 0,1,2,70000 %s" % (h, ",".join(fhex(t) for t in TIMES + [float("nan")])), "raw-rth-" + klass)
        else:
            qs = ",".join(k + str(t) for t in (0, 1, 20, 500, 5000, 60000, 16777215) for k in "cps")
            yield ("light h %s %s" % (h, qs), "raw-light-" + klass)
    # yaw curves of more than 2^24 ms (4.66 h: beyond it milliseconds are no longer exact in binary32 seconds) probed at
    # every float within a few ulps of their setpoint boundaries: the seek must terminate on whichever side it lands
    from .common import f32_bits, bits_f32
    from . import yawgen as Y
    def q32(ms):
        # (float)ms / 1000.0f: two roundings beyond 2^24
        return bits_f32(f32_bits(bits_f32(f32_bits(float(ms))) / 1000.0))
    for rep in range(6 if tier == "thorough" else 2):
        y = Y.rand_yaw(rng, n=0)
        y["deltas"] = [(rng.randint(40000, 65535), rng.choice([0, 900, -900, rng.randint(-3000, 3000)])) for _ in range(rng.randint(335, 380))]
        # ... followed by setpoints whose end, computed as start + duration in binary32 seconds, and the next one's
        # start, computed from the cumulative milliseconds, are as far apart as rounding allows (about one boundary in
        # a hundred is two ulps apart: searched for)
        cum = sum(d for d, _ in y["deltas"])
        for _ in range(40):
            best, bestgap = rng.randint(40000, 65535), 0
            for _ in range(400):
                d = rng.randint(20000, 65535)
                g = abs(f32_bits(q32(cum + d)) - f32_bits(bits_f32(f32_bits(q32(cum) + q32(d)))))
                if g > bestgap:
                    best, bestgap = d, g
                    if g >= 2:
                        break
            y["deltas"].append((best, rng.choice([0, 900, -900, rng.randint(-3000, 3000)])))
            cum += best
        bs = Y.boundaries(y)
        late = [b for b in bs if b > (1 << 24)]
        pick = late[-40:] + rng.sample(late[:-40], max(0, min(len(late) - 40, 8))) + rng.sample(bs, 6)
        qs = []
        for b in pick:
            u = f32_bits(q32(b))
            for k in (-3, -2, -1, 0, 1, 2, 3):
                qs.append(rng.choice("yr") + "%08x" % (u + k))
        yield ("yaw h %s %s" % (hexs(bytes(v & 255 for v in Y.encode(y))), ",".join(qs)), "yaw-boundary-gaps")
        yield ("yaw f %s %s" % (hexs(bytes(v & 255 for v in Y.encode(y))), ",".join(qs[:120])), "yaw-boundary-gaps")


def compare(case, om, oi):
    # only the verdict matters here (values are the business of the per-kind properties): the two sides must
    # agree on the init code and on the code of every query
    if case.startswith("routes"):
        from .C06 import compare as c06
        return c06(case, om, oi)

    def codes(s):
        out = []
        for tok in s.split(" "):
            f = tok.split(":")
            if f[0] in ("init",):
                out.append("init:" + f[1])
            elif len(f) >= 2 and len(f[0]) == 1 and f[0].isalpha():
                out.append(f[0] + ":" + (f[1] if f[1].startswith("e") or f[1] in ("0",) else "v"))
        return out
    if case.startswith("stats") or case.startswith("light"):
        return None
    if " dur=e" in om:
        # a block with a segment cut short: whether a query at a boundary instant reaches the bad segment depends on
        # binary32 vs exact comparison of times; the verdict (no report, every call returns) is what C03 states
        return None if om.split(" ")[0] == oi.split(" ")[0] else "init code model %s impl %s" % (om.split(" ")[0], oi.split(" ")[0])
    a, b = codes(om), codes(oi)
    if a != b:
        for x, y in zip(a, b):
            if x != y:
                return "result codes differ: model %s impl %s" % (x, y)
        return "result code count differs: model %d impl %d" % (len(a), len(b))
    return None


def finding_key(case, om, oi, d):
    # BytecodePlayer::seek never returns on a light program with a zero-time cycle (the model: no progress)
    if "timeout" in d and "noprogress" in om:
        return "D8 light-seek-no-progress"
    return d


def nontrivial(case, om, oi):
    return om.startswith("ok:") or om.startswith("init:0") or (case.startswith("light") and len(case.split(" ")[2]) > 4)


def outcome(case, om, oi):
    return case.split(" ")[0] + ":" + ("ok" if (om.startswith("ok") or om.startswith("init:0") or case.startswith("light") or case.startswith("stats")) else "rejected")


def impl_skip(case, om):
    """the model predicts that the call does not return (zero-time cycle, finding D8)"""
    return "noprogress" in om
