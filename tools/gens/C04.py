"""C04: container grammar, both routes, every kind of truncation: exact comparison."""
from .common import hexs, exact_compare
from . import skyb

RULE = ("files of 0..6 blocks (types 0..255 incl. type 0, lengths 0..40 and a few up to 70000 clipped to 65535, "
        "versions 1/2, with/without/bad checksum, stray feature bits), every truncation point inside headers and a sample "
        "inside bodies, bad magic/version edits, files beyond 64 KiB and with more than 256 records, plus the repository fixtures and their truncations; each through the memory "
        "and the descriptor route with a script walking all blocks (c,n), walking until the walk fails and then looking up the first record's type and the types named by the stray bytes, looking up several types (fK), reading bodies (b) "
        "and taking views (x). Non-trivial = initialisation succeeded and at least one block was visible.")
EXPLANATION = "model lines (extracted Coq parser model) and implementation lines must be identical token by token"
ASSUMPTIONS = ["descriptor route exercised through memfd_create; read(2)/lseek(2) behave as for regular files"]

WALK = "v,c,x,b,n,c,x,b,n,c,b,n,c,n,c,n,c,n,c,n"


def rand_blocks(rng):
    n = rng.choice([0, 0, 1, 1, 2, 3, 4, 6])
    bl = []
    for _ in range(n):
        ty = rng.choice([1, 2, 3, 4, 5, 5, 1, 2, rng.randrange(256), rng.randrange(256), 0 if rng.random() < 0.15 else 7])
        ln = rng.choice([0, 0, 1, 2, 3, 5, 9, 17, 40, rng.randrange(0, 300)])
        bl.append((ty, bytes(rng.randrange(256) for _ in range(ln))))
    return bl


def scripts(rng, bl):
    tys = [t for t, _ in bl] + [1, 2, 3, 4, 5, 0, 255]
    look = ",".join("f%d,c,b,x" % rng.choice(tys) for _ in range(3))
    return [WALK, look + ",r,c,n,c", "f%d,n,c,f%d,c,x" % (rng.choice(tys), rng.choice(tys))]


def cases(rng, tier):
    nfiles = 6000 if tier == "thorough" else 700
    files = []
    for name, data in skyb.fixtures():
        files.append(("fixture", data, skyb.parse_blocks(data)))
    for _ in range(nfiles):
        bl = rand_blocks(rng)
        v = rng.choice([1, 1, 2, 2, 2])
        mode = rng.choice(["none", "none", "crc", "crc", "bad", "zero"])
        feats = rng.choice([0, 0, 0, 2, 0x80, 0xfe])
        data = skyb.container(bl, version=v, features=feats, with_crc=(mode != "none"), bad_crc=(mode == "bad"))
        if mode == "zero" and v == 2 and data[6:10] != b"\0\0\0\0":
            data = data[:6] + b"\0\0\0\0" + data[10:]       # checksum feature set, field all zero: corrupted, not "no checksum"
        files.append(("gen-v%d-%s" % (v, mode), data, bl))
    # a block with a long body and a length field that claims more than there is
    big = skyb.container([(3, bytes(300)), (1, bytes(range(9)))], version=1)
    files.append(("gen-long", big, [(3, b""), (1, b"")]))
    files.append(("gen-claim", b"skyb\x01" + bytes([1, 0xff, 0xff, 1, 2, 3]), [(1, b"")]))
    # files beyond 64 KiB and with more than 255 / 300 records: offsets and record counts that do not fit 8 / 16 bits
    for k in range(6 if tier == "thorough" else 2):
        many = [(rng.choice([3, 6, 7]), bytes(rng.randrange(256) for _ in range(rng.choice([0, 1, 2])))) for _ in range(rng.choice([256, 257, 300]))]
        many += [(5, b"\x01\x02\x03"), (1, bytes(range(12)))]
        data = skyb.container(many, version=2, with_crc=(k % 2 == 0))
        for r in ("mem", "fd"):
            yield ("file %s %s %s" % (r, hexs(data), "v,f5,c,b,x,f1,c,b,x,f2,c,r,c,f1,c,b"), "many-records")
        bigb = [(3, bytes(rng.randrange(256) for _ in range(rng.choice([40000, 65535])))), (7, bytes(rng.randrange(256) for _ in range(30000))),
                (2, bytes([4, 1, 2, 3, 50, 0])), (1, bytes(range(20)))]
        data = skyb.container(bigb, version=2, with_crc=(k % 2 == 1))
        for cut in (len(data), len(data) - 1, len(data) - 21, 65536, 65537):
            for r in ("mem", "fd"):
                yield ("file %s %s %s" % (r, hexs(data[:cut]), "v,f1,c,b,x,f2,c,b,x,r,c,n,c,n,c,b,n,c,x,n,c"), "beyond-64k")
    for klass, data, bl in files:
        data = bytes(data)
        scs = scripts(rng, bl)
        cuts = set([len(data)])
        if klass != "fixture" or tier == "thorough":
            hdr_end = 12
            for c in range(0, min(len(data), hdr_end) + 1):
                cuts.add(c)
            # around every record header
            pos = 5 if len(data) > 4 and data[4] == 1 else (10 if len(data) > 5 and data[5] & 1 else 6)
            for ty, body in bl:
                for d in (0, 1, 2, 3, 4):
                    if pos + d <= len(data):
                        cuts.add(pos + d)
                pos += 3 + len(body)
                if pos - 1 >= 0 and pos - 1 <= len(data):
                    cuts.add(pos - 1)
            for _ in range(3):
                cuts.add(rng.randint(0, len(data)))
        else:
            for _ in range(12):
                cuts.add(rng.randint(0, len(data)))
        if len(data) > 3000 and tier != "thorough":
            cuts = set(list(cuts)[:6]) | {len(data)}
        for c in sorted(cuts):
            d = data[:c]
            sc = scs[rng.randrange(len(scs))] if c != len(data) else None
            extra = []
            if sc and c >= 6:
                # walk until the walk fails (a record header cut short leaves the cursor half updated), then look up the
                # first record's type and the types the stray bytes at the end would name
                t0 = bl[0][0] if bl else 1
                extra = ["n,n,n,n,n,n,n,f%d,c,b,x,f%d,c,b,x,f%d,c,b,r,c,b" % (t0, d[-1], d[-2]), "f%d,n,f%d,c,b,n,f%d,c,b,x" % (t0, d[-1], t0)]
            for s in ([sc] + extra if sc else scs):
                for r in ("mem", "fd"):
                    yield ("file %s %s %s" % (r, hexs(d), s), klass + ("" if c == len(data) else "-cut"))
        # header edits
        if klass != "fixture" and len(data) >= 5:
            for i, vals in ((0, [0x73 ^ 1]), (3, [0x62 ^ 0x20]), (4, [0, 3, 255])):
                for v in vals:
                    d = bytearray(data)
                    d[i] = v
                    for r in ("mem", "fd"):
                        yield ("file %s %s %s" % (r, hexs(d), "v,c"), "hdr-edit")


def compare(case, om, oi):
    return exact_compare(case, om, oi)


def nontrivial(case, om, oi):
    return om.startswith("init:0") and " c:" in om and " c:0,0,0" != om[6:14]


def finding_key(case, om, oi, d):
    # a memory view beyond the buffer (D1) shows as an 'x:oob1@..' token on both sides; a
    # difference elsewhere is keyed by the first differing token
    tm, ti = om.split(" "), oi.split(" ")
    for a, b in zip(tm, ti):
        if a != b:
            return "token model=%s impl=%s" % (a, b)
    return "length model=%d impl=%d" % (len(tm), len(ti))
