"""C05: checksummed files reject every detectable corruption; CRC routine is
split-independent: exact comparison of model and implementation."""
from .common import hexs, exact_compare
from . import skyb

RULE = ("valid checksummed files with lengths on both sides of and at multiples of the 256-byte read chunk, and files beyond "
        "64 KiB and 128 KiB with corruptions at the offsets congruent to the checksum field modulo 65536; for each: "
        "every single-bit flip from offset 6 to the end, sampled double-bit flips, every 1..4-byte window (not straddling "
        "offset 10) overwritten with xor-ff / zero / random, through the parser on both routes and (sampled) through the four "
        "loaders; sb_ap_crc32_update on random data with random split points and against the bit-serial specification. "
        "Non-trivial = every case (each is a distinct corruption or split); the evidence also counts how many were rejected.")
EXPLANATION = "the model answer (accept / SB_ECORRUPTED / other) must equal the implementation's; theorems say which corruptions must be rejected"
ASSUMPTIONS = ["descriptor route exercised through memfd_create"]


def valid_file(rng, total_len):
    """a checksummed v2 file of exactly total_len bytes (>= 10)"""
    body_len = total_len - 10
    blocks = []
    remaining = body_len
    kinds = [1, 2, 5, 4, 3]
    while remaining >= 3:
        n = min(remaining - 3, rng.choice([0, 3, 9, 12, 40, 300]))
        if remaining - 3 - n in (1, 2):
            n = remaining - 3
        ty = kinds[len(blocks) % len(kinds)]
        body = bytes(rng.randrange(256) for _ in range(n))
        if ty == 1 and n >= 9:
            body = bytes([1]) + bytes(8) + body[9:]
        blocks.append((ty, body))
        remaining -= 3 + n
    data = skyb.container(blocks, version=2, with_crc=True)
    data = data + bytes(remaining)  # 0..2 stray zero bytes: a type-0 record start
    if remaining:
        c = skyb.ap_crc32(data[:6] + b"\0\0\0\0" + data[10:])
        data = data[:6] + bytes([c & 255, (c >> 8) & 255, (c >> 16) & 255, (c >> 24) & 255]) + data[10:]
    assert len(data) == total_len
    return data


def cases(rng, tier):
    thorough = tier == "thorough"
    # --- incremental CRC
    for _ in range(4000 if thorough else 600):
        n = rng.choice([0, 1, 2, 9, 255, 256, 257, rng.randrange(0, 700)])
        d = [rng.randrange(256) for _ in range(n)]
        k = rng.randrange(0, 4)
        cuts = sorted(rng.randint(0, n) for _ in range(k))
        init = rng.choice([0, 0, 0xFFFFFFFF, rng.getrandbits(32)])
        yield ("crc %d %s %s" % (init, hexs(d), ",".join(map(str, cuts)) if cuts else "-"), "crc-split")
        if n <= 300:
            yield ("crcspec %s" % hexs(d), "crc-bitserial")
    yield from large_cases(rng, thorough)
    # --- the feature byte is part of the checksummed file: files with further (unassigned) feature bits and a checksum
    # computed over them are accepted; flipping any of those bits afterwards is corruption
    for L in (13, 40, 300):
        f0 = valid_file(rng, L)
        for extra in (0x02, 0x80, 0x7e, 0xfe):
            g = bytearray(f0)
            g[5] |= extra
            c = skyb.ap_crc32(bytes(g[:6]) + b"\0\0\0\0" + bytes(g[10:]))
            g[6:10] = bytes([c & 255, (c >> 8) & 255, (c >> 16) & 255, (c >> 24) & 255])
            for r in ("mem", "fd"):
                yield ("file %s %s v,c" % (r, hexs(g)), "feature-bits-valid")
            for bit in range(1, 8):
                h = bytearray(g)
                h[5] ^= 1 << bit
                yield ("file %s %s c" % (rng.choice(["mem", "fd"]), hexs(h)), "feature-bit-flip")
        for bit in range(1, 8):
            h = bytearray(f0)
            h[5] ^= 1 << bit
            yield ("file %s %s c" % (rng.choice(["mem", "fd"]), hexs(h)), "feature-bit-flip")
    # --- files crafted so that the running checksum is exactly zero at a 256-byte chunk boundary (the register has no
    # final inversion: appending the little-endian CRC of what came before brings it to zero): alterations in the
    # bytes of the NEXT chunk that sit where the checksum field sits in the first one (offsets 6..9 of the chunk)
    for k in ((1, 2) if not thorough else (1, 2, 3, 5)):
        L = 256 * k + rng.choice([40, 266])
        body = bytearray(rng.randrange(256) for _ in range(L - 10 - 3))
        f = bytearray(skyb.container([(3, bytes(body))], version=2, with_crc=True))
        cut = 256 * k
        c0 = skyb.ap_crc32(bytes(f[:6]) + b"\0\0\0\0" + bytes(f[10:cut - 4]))
        f[cut - 4:cut] = bytes([c0 & 255, (c0 >> 8) & 255, (c0 >> 16) & 255, (c0 >> 24) & 255])
        assert skyb.ap_crc32(bytes(f[:6]) + b"\0\0\0\0" + bytes(f[10:cut])) == 0
        f[cut + 6:cut + 10] = b"\0\0\0\0"
        c = skyb.ap_crc32(bytes(f[:6]) + b"\0\0\0\0" + bytes(f[10:]))
        f[6:10] = bytes([c & 255, (c >> 8) & 255, (c >> 16) & 255, (c >> 24) & 255])
        for r in ("mem", "fd"):
            yield ("file %s %s v,c" % (r, hexs(f)), "zero-register-valid")
        for off in range(cut + 4, cut + 12):
            for bit in (0, 7):
                g = bytearray(f)
                g[off] ^= 1 << bit
                yield ("file %s %s c" % (rng.choice(["mem", "fd"]), hexs(g)), "zero-register-flip")
        g = bytearray(f)
        g[cut + 6:cut + 10] = b"\xde\xad\xbe\xef"
        for r in ("mem", "fd"):
            yield ("file %s %s c" % (r, hexs(g)), "zero-register-window")
    # --- files whose checksum holds a zero byte (at offset 6, 7 or 8): alterations of the checksum bytes BEHIND the zero,
    # and another body whose checksum agrees up to and including the zero (a comparison of the four bytes that stops
    # at a zero, as string comparisons do, accepts both)
    for pos in (0, 1, 2):
        L = rng.choice([24, 40, 300])
        f0 = bytearray(valid_file(rng, L))
        hits = []
        for v in range(65536):
            f0[L - 2], f0[L - 1] = v & 255, v >> 8
            c = skyb.ap_crc32(bytes(f0[:6]) + b"\0\0\0\0" + bytes(f0[10:]))
            if (c >> (8 * pos)) & 255 == 0 and all((c >> (8 * q)) & 255 for q in range(4) if q != pos):
                hits.append((v, c))
                if len(hits) >= (40 if pos == 0 else 1):
                    break
        files = []
        for v, c in hits:
            g = bytearray(f0)
            g[L - 2], g[L - 1] = v & 255, v >> 8
            g[6:10] = bytes([c & 255, (c >> 8) & 255, (c >> 16) & 255, (c >> 24) & 255])
            files.append((g, c))
        g, c = files[0]
        for r in ("mem", "fd"):
            yield ("file %s %s v,c" % (r, hexs(g)), "crc-zero-byte-valid")
            for k in ("traj", "light", "yaw", "rth"):
                yield ("load %s %s %s" % (k, r, hexs(g)), "crc-zero-byte-valid-load")
        for bit in range(48, 80):
            h = bytearray(g)
            h[bit // 8] ^= 1 << (bit % 8)
            for r in ("mem", "fd"):
                yield ("file %s %s c" % (r, hexs(h)), "crc-zero-byte-flip")
            if bit % 8 == 0:
                yield ("load %s %s %s" % (("traj", "light", "yaw", "rth")[(bit // 8) % 4], "mem", hexs(h)), "crc-zero-byte-flip-load")
        for start in range(6 + pos + 1, 10):
            for pat in (b"\0\0\0\0", b"\xff\xff\xff\xff", bytes(rng.randrange(256) for _ in range(4))):
                h = bytearray(g)
                h[start:10] = pat[:10 - start]
                if h != g:
                    yield ("file %s %s c" % (rng.choice(["mem", "fd"]), hexs(h)), "crc-zero-byte-window")
        # the body of one file with the checksum of another that shares the low byte(s) up to the zero
        for g2, c2 in files[1:]:
            mask = (1 << (8 * (pos + 1))) - 1
            if c2 != c and (c2 & mask) == (c & mask):
                h = bytearray(g2)
                h[6:10] = g[6:10]
                for r in ("mem", "fd"):
                    yield ("file %s %s c" % (r, hexs(h)), "crc-zero-byte-other-body")
    # --- corrupted files
    lens = [10, 13, 24, 200, 255, 256, 257, 266, 511, 512, 513, 522] + ([768, 1024, 1025, 1290] if thorough else [768])
    for L in lens:
        f = valid_file(rng, L)
        for r in ("mem", "fd"):
            yield ("file %s %s v,c" % (r, hexs(f)), "valid")
            for k in ("traj", "light", "yaw", "rth"):
                yield ("load %s %s %s" % (k, r, hexs(f)), "valid-load")
        # single-bit flips
        for bit in range(6 * 8, L * 8):
            g = bytearray(f)
            g[bit // 8] ^= 1 << (bit % 8)
            r = "mem" if (bit + L) % 2 else "fd"
            if thorough or L <= 266 or bit % 3 == 0:
                yield ("file %s %s c" % (r, hexs(g)), "flip1")
            if bit % 41 == 0:
                k = ("traj", "light", "yaw", "rth")[(bit // 41) % 4]
                yield ("load %s %s %s" % (k, "fd" if r == "mem" else "mem", hexs(g)), "flip1-load")
        # double flips
        for _ in range(2000 if thorough else 250):
            a = rng.randrange(48, L * 8)
            b = rng.randrange(48, L * 8)
            if a == b:
                continue
            g = bytearray(f)
            g[a // 8] ^= 1 << (a % 8)
            g[b // 8] ^= 1 << (b % 8)
            yield ("file %s %s c" % (rng.choice(["mem", "fd"]), hexs(g)), "flip2")
        # windows
        for start in range(6, L):
            for w in (1, 2, 3, 4):
                if start + w > L:
                    continue
                if start < 10 < start + w:
                    continue  # straddles the end of the checksum field
                if not thorough and L > 266 and (start * 4 + w) % 5:
                    continue
                for pat in ("ff", "00", "rnd"):
                    g = bytearray(f)
                    for i in range(start, start + w):
                        g[i] = (g[i] ^ 0xff) if pat == "ff" else (0 if pat == "00" else rng.randrange(256))
                    if bytes(g) == f:
                        continue
                    yield ("file %s %s c" % (rng.choice(["mem", "fd"]), hexs(g)), "window%d" % w)


def large_cases(rng, thorough):
    """files beyond 64 KiB (several blocks): the bookkeeping of the chunked checksum loop (chunk counter, 'first chunk'
    test, offsets) at multiples of 256 and 65536; corruptions at the positions congruent to the checksum field"""
    for L in ([65546 + 300] if not thorough else [65536, 65546, 65547, 70016, 131082 + 17, 196700]):
        for fill in ("rnd", "zero"):
            body_len = L - 10
            blocks = []
            remaining = body_len
            while remaining >= 3:
                n = min(remaining - 3, 60000)
                if remaining - 3 - n in (1, 2):
                    n -= 3
                body = bytes(rng.randrange(256) for _ in range(n)) if fill == "rnd" else bytes(n)
                blocks.append((3, body))
                remaining -= 3 + n
            f = skyb.container(blocks, version=2, with_crc=True)
            f = f + bytes(L - len(f))
            f = bytes(f[:6]) + bytes(4) + bytes(f[10:])
            c = skyb.ap_crc32(f)
            f = f[:6] + bytes([c & 255, (c >> 8) & 255, (c >> 16) & 255, (c >> 24) & 255]) + f[10:]
            for r in ("mem", "fd"):
                yield ("file %s %s v,c" % (r, hexs(f)), "valid")
            pos = []
            for k in range(1, L // 65536 + 1):
                pos += [k * 65536 + d for d in (0, 5, 6, 7, 8, 9, 10, 255, 256)]
            pos += [L - 1, 256 + 6, 10] + [rng.randrange(10, L) for _ in range(2 if not thorough else 6)]
            for p0 in pos:
                if not (10 <= p0 < L):
                    continue
                g = bytearray(f)
                g[p0] ^= 1 << rng.randrange(8)
                yield ("file %s %s c" % (rng.choice(["mem", "fd"]), hexs(g)), "flip1")
                if p0 + 4 <= L and (thorough or p0 % 65536 in (6, 0)):
                    g = bytearray(f)
                    for i in range(p0, p0 + 4):
                        g[i] ^= 0xff
                    yield ("file %s %s c" % (rng.choice(["mem", "fd"]), hexs(g)), "window4")


def compare(case, om, oi):
    d = exact_compare(case, om, oi)
    if d:
        return d
    return None


def nontrivial(case, om, oi):
    return True


def outcome(case, om, oi):
    return om.split(" ")[0][:8]


def oracle(case, klass, om, oi):
    """What the theorems of Properties_C05 demand of the implementation, whatever the model says."""
    if klass == "valid" and not oi.startswith("init:0"):
        return "a valid checksummed file is not accepted: impl=%s" % oi[:60]
    if klass in ("flip1", "window1", "window2", "window3", "window4") and not oi.startswith("init:e19"):
        return "theorem burst/one-bit detection: corrupted file not reported as SB_ECORRUPTED: impl=%s" % oi[:60]
    if klass == "flip1-load" and oi != "e19":
        return "loader does not report SB_ECORRUPTED for a one-bit corruption: impl=%s" % oi[:60]
    if klass == "flip2" and not oi.startswith("init:e19"):
        return "theorem two_bits_detected_upto: double-bit corruption not reported: impl=%s" % oi[:60]
    return None
