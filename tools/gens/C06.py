"""C06: loading from a descriptor and from memory are interchangeable: the
model predicts success/failure per route and the block bytes; the harness
loads both ways and compares every observation (fixed battery of all public
queries, then clear, then the battery again) bit for bit, C against C."""
from .common import hexs
from . import filegen

RULE = ("valid show files (repository fixtures and generated files with trajectory / light / yaw / RTH / comment blocks in "
        "random order, versions 1/2, with and without checksum), every prefix (sampled in quick), single-byte boundary-value "
        "edits (checksum re-fixed for most so that the edit reaches the block), length-field edits, splices, duplications, "
        "random strings; each crossed with the four object kinds. Non-trivial = both routes load successfully.")
EXPLANATION = ("model and implementation agree on success/failure of each route and on the number of block bytes; harness token "
               "'same' = block bytes and all observations (queries before and after clear) identical between the routes; "
               "'MISMATCH' / 'blockdiff' / 'diff@' are violations; error codes may differ only as EREAD vs ENOENT")
ASSUMPTIONS = ["descriptor route exercised through memfd_create (also duplicated onto descriptor 0)", "the bounding box of degree-7 axes (finding D13) is excluded from the battery"]


def cases(rng, tier):
    for klass, data in filegen.corpus(rng, tier):
        h = hexs(data)
        for kind in ("traj", "light", "yaw", "rth"):
            yield ("routes %s %s" % (kind, h), klass)
    # the show on descriptor 0 (a program started with the show as its standard input): as valid as any other descriptor
    k = 0
    for klass, data in filegen.corpus(rng, tier):
        k += 1
        if k % 9 == 0:
            yield ("routes %s %s fd0" % (("traj", "light", "yaw", "rth")[(k // 9) % 4], hexs(data)), "descriptor-0")


def compare(case, om, oi):
    if oi.startswith("MISMATCH"):
        return "one route loads, the other fails: %s (model %s)" % (oi, om)
    m = om.split(":")
    i = oi.split(":")
    if m[0] == "fail":
        if i[0] != "fail":
            return "model: both routes fail (%s); impl: %s" % (om, oi[:80])
        a, b = i[1], i[2]
        if a != b and {a, b} != {"5", "18"}:
            return "routes report different errors %s / %s (allowed: only EREAD vs ENOENT)" % (a, b)
        # model codes
        ma, mb = m[1].lstrip("e"), m[2].lstrip("e")
        if (ma, mb) != (a, b):
            return "error codes model=%s impl=%s" % (om, oi)
        return None
    if m[0] == "MISMATCH":
        return "model predicts a route mismatch: %s" % om
    if i[0] != "ok":
        return "model: both routes load (%s); impl: %s" % (om, oi[:80])
    if m[1] != i[1]:
        return "block size model=%s impl=%s" % (m[1], i[1])
    if i[2] != "same":
        return "routes differ: %s" % oi[:160]
    return None


def abnormal_ok(case, om, oi):
    return oi == "timeout" and om.endswith(":noprogress")


def nontrivial(case, om, oi):
    return om.startswith("ok:")


def outcome(case, om, oi):
    return om.split(":")[0] + ":" + case.split(" ")[1]


def impl_skip(case, om):
    """the model predicts that the call does not return (zero-time cycle, finding D8)"""
    return "noprogress" in om
