"""C07: velocity and acceleration against the exact derivative (model over Q);
probed strictly inside segments; tolerance from Spec/TrajSpec.v (tol_at 1/2)."""
from fractions import Fraction
from .common import hexs, fhex
from . import trajgen as G
from .C01 import compare_traj, fixture_blocks, outcome  # noqa: F401

RULE = ("trajectories as in C01 (all degree combinations, durations 1 ms .. 65 s, all scales) with positive durations, a class of curved segments that end exactly where they start; "
        "velocity and acceleration queried at interior fractions (1/8,1/4,1/2,3/4, random) of every segment, after the end, "
        "before zero and at +-inf; the lazy derivative cache is exercised by history-mode lines mixing v/a/p queries. "
        "Non-trivial = at least one successful velocity or acceleration answer inside a non-constant segment.")
EXPLANATION = "|impl - exact derivative| <= tol_at k (k=1 velocity, k=2 acceleration) + 2^-22|exact| per component"
ASSUMPTIONS = ["float32 rounding bound tol_at is an assumed (not proved) bound with a safety factor 4"]
TRUSTED = ["Spec/TrajSpec.v tol_at: assumed numeric bound"]


def cases(rng, tier):
    n = 20000 if tier == "thorough" else 1200
    for b in fixture_blocks():
        ts = [0.5, 1.0, 2.5, 7.3, 12.1, 33.3]
        yield ("traj f %s %s" % (hexs(b), ",".join(k + fhex(t) for t in ts for k in "va")), "fixture")
    nlong = 8 if tier == "thorough" else 2
    for i in range(n + nlong):
        tr = G.rand_traj(rng, nseg=rng.choice([1, 2, 3, 5]), maxdeg=(7 if i % 3 else 3))
        if i % 7 == 3:
            tr["start"][3] = tr["start"][3] % 3600          # (the loop closes on the stored yaw: keep it in range)
            G.close_loops(rng, tr)
        if i >= n:
            # a block longer than 64 KiB, probed in its tail (beyond byte offset 65536)
            st = tr["start"]
            pre = G.long_prefix(rng, st[0], st[1], st[2], deg=3, flat_z=False, dur=20)
            t0 = sum(s["dur"] for s in pre)
            tail = dict(tr)
            bs = [t0 + b for b in G.boundaries(tail)]
            ts = [G.f32(t0 / 1000.0 + t) for t in G.probe_times(rng, tail, 40, interior_only=True)]
            keep = [t for t in ts if all(abs(t * 1000 - b) >= 2 for b in bs)][:10]
            qs = [rng.choice("vvaap") + fhex(t) for t in keep]
            tr["segs"] = pre + tr["segs"]
            yield ("traj %s %s %s" % ("h" if i % 2 else "f", hexs(G.encode(tr)), ",".join(qs)), "long-block")
            continue
        ts = G.probe_times(rng, tr, 40, interior_only=True)
        # keep away from boundaries: at least 2 ms
        bs = G.boundaries(tr)
        keep = []
        for t in ts:
            if all(abs(t * 1000 - b) >= 2 for b in bs):
                keep.append(t)
        rng.shuffle(keep)
        keep = keep[:10]
        end = bs[-1] / 1000.0
        qs = [rng.choice("vvaap") + fhex(t) for t in keep]
        qs += ["v" + fhex(end + 1.0), "a" + fhex(end + 1.0), "v7f800000", "a7f800000"]
        mode = "h" if i % 4 == 0 else "f"
        if not (bs and 0 in [s["dur"] for s in tr["segs"]]):
            # before zero: the values at zero (only meaningful when the first segment has positive duration)
            qs += ["vbf800000", "a80000000", "vff800000"]
        rng.shuffle(qs)
        yield ("traj %s %s %s" % (mode, hexs(G.encode(tr)), ",".join(qs)), "gen-" + mode)
        if i % 4 == 1 and len(keep) >= 3:
            # the same instant again after calls that move the player on their own (the duration query leaves it
            # beyond the end): whatever is remembered per instant must not outlive them
            a, b, c = keep[0], keep[1], keep[2]
            qs = ["v" + fhex(a), "d00000000", "v" + fhex(a), "a" + fhex(a), "p" + fhex(b), "d00000000", "a" + fhex(b), "v" + fhex(b),
                  "v" + fhex(end + 1.0), "d00000000", "v" + fhex(end + 1.0), "a" + fhex(c), "d00000000", "p" + fhex(c), "v" + fhex(c)]
            yield ("traj h %s %s" % (hexs(G.encode(tr)), ",".join(qs)), "same-instant-after-duration")


def compare(case, om, oi):
    return compare_traj(case, om, oi)


def nontrivial(case, om, oi):
    return om.startswith("init:0") and (" v:0:" in om or " a:0:" in om) and "nseg=0" not in om
