"""C08: answers do not depend on earlier queries.  The implementation side
compares, bit for bit, one player with a history against a fresh player per
query (C against C); positions are also compared with the exact model."""
import itertools
from .common import hexs, fhex
from . import trajgen as G
from .C01 import compare_traj, outcome  # noqa: F401

RULE = ("objects as in C01/C10 with positive durations; per object every ordering of 5 probe times (boundaries, one ulp "
        "around, interior, before start, beyond end, +-inf) for a sample of objects, plus long random sequences (40 queries) "
        "mixing position/velocity/acceleration/total-duration (trajectory player) and yaw/yaw-rate/duration (yaw player) with repeats and back-jumps. "
        "Non-trivial = a history of >= 2 queries on an object with >= 2 segments (setpoints).")
EXPLANATION = ("token flag per query from the harness: '=' bit-for-bit equal to a fresh player, 'b' differs but t is exactly a "
               "boundary and the used segment adjoins it, 'X' anything else (violation); positions also within tolerance of the exact model")
ASSUMPTIONS = ["bit-for-bit comparison is C against C inside one process"]


def cases(rng, tier):
    thorough = tier == "thorough"
    for i in range(2000 if thorough else 120):
        tr = G.rand_traj(rng, nseg=rng.choice([2, 3, 4]))
        b = hexs(G.encode(tr))
        bs = G.boundaries(tr)
        cand = G.probe_times(rng, tr, 60)
        rng.shuffle(cand)
        probes = cand[:3] + [G.f32(bs[1] / 1000.0), G.f32(bs[-1] / 1000.0)]
        perms = list(itertools.permutations(range(5)))
        if not thorough:
            rng.shuffle(perms)
            perms = perms[:24]
        for pm in perms:
            qs = [rng.choice("ppvad") + fhex(probes[k]) for k in pm]
            yield ("traj h %s %s" % (b, ",".join(qs)), "perm5")
    for i in range(3000 if thorough else 300):
        tr = G.rand_traj(rng, nseg=rng.choice([2, 3, 5, 8]))
        b = hexs(G.encode(tr))
        cand = G.probe_times(rng, tr, 80)
        qs = []
        for _ in range(40):
            t = rng.choice(cand)
            qs.append(rng.choice("pppvvad") + fhex(t))
            if rng.random() < 0.2:
                qs.append(rng.choice("pva") + fhex(t))       # repeat
        yield ("traj h %s %s" % (b, ",".join(qs)), "long")
    # blocks longer than 64 KiB: histories that jump between the head and the tail (beyond byte offset 65536)
    for i in range(8 if thorough else 2):
        tr = G.rand_traj(rng, nseg=rng.choice([2, 3, 5]))
        st = tr["start"]
        pre = G.long_prefix(rng, st[0], st[1], st[2], deg=3, flat_z=False, dur=20)
        t0 = sum(s["dur"] for s in pre) / 1000.0
        cand = [G.f32(t0 + t) for t in G.probe_times(rng, tr, 30)] + [G.f32(t0 * f) for f in (0.1, 0.5, 0.9, 1.0)] + [0.0]
        tr["segs"] = pre + tr["segs"]
        qs = [rng.choice("pppvvad") + fhex(rng.choice(cand)) for _ in range(30)]
        yield ("traj h %s %s" % (hexs(G.encode(tr)), ",".join(qs)), "long-block")
    # yaw player histories
    from . import yawgen as Y
    for i in range(3000 if thorough else 300):
        yc = Y.rand_yaw(rng, n=rng.choice([2, 3, 5, 9]))
        cand = Y.probe_times(rng, yc, 60)
        qs = []
        for _ in range(30):
            qs.append(rng.choice("yyrd") + fhex(rng.choice(cand)))
        yield ("yaw h %s %s" % (hexs(Y.encode(yc)), ",".join(qs)), "yaw-long")


def compare(case, om, oi):
    if " X" in oi.replace(":X", " X"):
        for tok in oi.split(" "):
            if tok.endswith(":X"):
                return "history-dependent answer (not a boundary): %s" % tok[:120]
    if case.startswith("yaw "):
        from .C10 import compare_yaw
        return compare_yaw(case, om, oi, values=False)
    # positions against the exact model; v/a values are C07's business (discontinuous at boundaries)
    tm, ti = om.split(" "), oi.split(" ")
    fm = [t for t in tm if not (t.startswith("v:") or t.startswith("a:"))]
    fi = [t for t in ti if not (t.startswith("v:") or t.startswith("a:"))]
    return compare_traj(case, " ".join(fm), " ".join(fi))


def nontrivial(case, om, oi):
    return om.startswith("init:0") and case.count(",") >= 1
