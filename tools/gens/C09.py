"""C09: light-player answers do not depend on earlier seeks: one player with a
history (model threads its player the same way), compared query by query; each
query's answer is also compared with a fresh player's (C against C through the
fresh-mode line that follows), outside the repeated-instant latitude."""
import itertools
from .common import hexs
from . import lightgen as L
from .C02 import compare_light, abnormal_ok, outcome  # noqa: F401

RULE = ("programs as in C02; per program every ordering of a 4-element probe set (incl. a repeated instant and a command start "
        "instant) for a sample of programs, plus random walks of 30 seeks with back-jumps, repeats and far skips, mixing "
        "colour / pyro / seek queries through ONE player. Non-trivial = history of >= 3 queries on a program with >= 2 commands.")
EXPLANATION = ("history-mode answers of the implementation equal the history-mode answers of the polling model (exact, fades within the "
               "truncation bound); the theorem seek_history_independent relates those to the declarative state")
ASSUMPTIONS = ["as C02"]


def cases(rng, tier):
    thorough = tier == "thorough"
    for i in range(4000 if thorough else 250):
        prog = L.rand_program(rng, maxdepth_cap=4)
        cyc = L.has_cycle(prog)
        base = [0, 20 * rng.randint(0, 60), 20 * rng.randint(0, 200) + rng.choice([0, 1, 10]), rng.randint(0, 9000)]
        base[3] = base[1] if rng.random() < 0.5 else base[3]     # a repeated instant
        perms = list(itertools.permutations(range(4)))
        if not thorough:
            rng.shuffle(perms)
            perms = perms[:8]
        for pm in perms:
            q = ",".join(rng.choice("ccps") + str(base[k]) for k in pm)
            yield ("light h %s %s" % (hexs(prog), q), "perm4")
    for label, prog in L.special_programs(rng, thorough, deep=False):
        ts = L.probe_times(rng, 12, cyclic=True)
        seq = [rng.choice("cccps") + str(rng.choice(ts)) for _ in range(24)]
        yield ("light h %s %s" % (hexs(prog), ",".join(seq)), label)
    # loops nested deeper than the four supported levels: what a refused level does is outside C02's domain, but the
    # answers still must not depend on earlier seeks: one player with a history against fresh players, C against C, at
    # instants that are never the start of a command (t = 7 mod 20: commands start at multiples of 20 ms)
    for label, prog in L.special_programs(rng, thorough, deep=True):
        if label != "deep-nesting":
            continue
        ts = [20 * rng.randint(0, 400) + 7 for _ in range(10)] + [7, 27, 1007]
        seq = [rng.choice("cccp") + str(rng.choice(ts)) for _ in range(30)]
        yield ("light x %s %s" % (hexs(prog), ",".join(seq)), "deep-nesting-history")
    # hundreds or thousands of commands at one instant (a zero-time loop at the start, another one later), and many
    # back-seeks in a row that all stay inside the first timed command: whatever is counted per instant or per replay
    # must start over with every rewind
    for n1, n2 in ([(250, 1), (100, 3), (255, 9), (40, 40)] if not thorough else [(250, 1), (100, 3), (255, 9), (40, 40), (255, 33), (17, 255)]):
        zero_body = [0x04, rng.randrange(256), rng.randrange(256), rng.randrange(256), 0, 0x01]
        prog = [0x0c, n2, 0x0c, n1] + zero_body + [0x0d, 0x0d]
        prog += [0x04, 255, 0, 0, 250, 0x0c, 60] + zero_body + [0x0d, 0x04, 0, 255, 0, 100, 0x08, 0, 0, 255, 50, 0x00]
        down = sorted(rng.sample(range(7, 4990), 24), reverse=True)
        seq = ["c%d" % t for t in down] + ["c5500", "p6200", "c7900", "c100", "c6000", "c0", "c8000"]
        yield ("light x %s %s" % (hexs(prog), ",".join(seq)), "busy-instant-history")
        yield ("light h %s %s" % (hexs(prog), ",".join(seq)), "busy-instant-history")
    for i in range(8000 if thorough else 700):
        prog = L.rand_program(rng, maxdepth_cap=4)
        cyc = L.has_cycle(prog)
        ts = L.probe_times(rng, 12, cyclic=cyc)
        seq = []
        for _ in range(30):
            t = rng.choice(ts)
            seq.append(rng.choice("cccps") + str(t))
            if rng.random() < 0.25:
                seq.append(rng.choice("cps") + str(t))          # repeat the instant
        yield ("light h %s %s" % (hexs(prog), ",".join(seq)), "walk")


def compare(case, om, oi):
    if case.startswith("light x "):
        bad = [t for t in oi.split(" ") if ":X" in t]
        return None if not bad else "answer of a player with a history differs from a fresh player's (C against C): %s" % bad[0]
    return compare_light(case, om, oi)


def nontrivial(case, om, oi):
    return case.count(",") >= 2 and len(case.split(" ")[2]) >= 6


def impl_skip(case, om):
    """the model predicts that the call does not return (zero-time cycle, finding D8)"""
    return "noprogress" in om
