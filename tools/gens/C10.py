"""C10: yaw control: header fields and durations exact; yaw / yaw rate within
the Coq-defined float32 tolerance of the exact piecewise-linear curve."""
from fractions import Fraction
from .common import hexs, fhex, frac_of_bits, parse_q
from . import yawgen as Y

RULE = ("blocks with any flag byte, any signed 16-bit offset, 0..20 setpoints with durations from the boundary set and random "
        "(>= 1 ms; a separate class with 0 ms away from their instant) and changes incl. +-32767/-32768 (accumulated yaw beyond "
        "+-3276.7 deg), trailing partial deltas, blocks with more than 16383 and more than 65535 setpoints; yaw at/around every boundary, interior, <= 0, +-inf; rate strictly inside "
        "setpoints and after the end; total duration of a fresh player and of a player parked inside each setpoint. Non-trivial = at least one setpoint and one successful query.")
EXPLANATION = "fields/durations exact; |yaw - exact| <= yaw_tol + 2^-22|exact|; |rate - exact| <= 2^-20 |exact| + 2^-18"
ASSUMPTIONS = ["float32 rounding bound yaw_tol is an assumed bound with a safety factor 4"]


def cases(rng, tier):
    n = 30000 if tier == "thorough" else 2500
    for i in range(n):
        zero = (i % 12 == 0)
        y = Y.rand_yaw(rng, allow_zero_dur=zero)
        b = Y.encode(y)
        if i % 15 == 0:
            b = b + [rng.randrange(256) for _ in range(rng.randint(1, 3))]   # trailing partial delta: ignored
        bs = Y.boundaries(y)
        ts = Y.probe_times(rng, y, 10)
        qs = []
        zs = set(bs[k] for k, (d, _) in enumerate(y["deltas"]) if d == 0)
        for t in ts:
            if zs:
                tt = max(t, 0.0)
                if tt != float("inf") and any(abs(tt * 1000 - z) < 2 for z in zs):
                    continue
                if tt == float("inf") and bs[-1] in zs:
                    continue
            qs.append("y" + fhex(t))
        for t in Y.probe_times(rng, y, 30, interior_only=True)[:6]:
            if all(abs(t * 1000 - bb) >= 2 for bb in bs):
                qs.append("r" + fhex(t))
        qs += ["r" + fhex(bs[-1] / 1000.0 + 3), "d00000000", "r7f800000"]
        yield ("yaw f %s %s" % (hexs(b), ",".join(qs)), "zero-dur" if zero else "gen")
        if not zero and i % 4 == 0 and len(y["deltas"]) >= 2:
            # the duration asked of a player that has been used: park it inside each setpoint first
            ks = [k for k in range(len(bs) - 1) if bs[k + 1] > bs[k]]
            rng.shuffle(ks)
            hq = []
            for k in ks[:4]:
                t = (bs[k] + (bs[k + 1] - bs[k]) * rng.choice([0.25, 0.5, 0.75])) / 1000.0
                q = rng.choice("yr") + fhex(t)
                hq += [q, "d00000000"] + ([q] if rng.random() < 0.6 else [rng.choice("yr") + fhex(t)])
            if hq:
                yield ("yaw h %s %s" % (hexs(b), ",".join(hq)), "used-player-duration")
    # blocks longer than 64 KiB (more than 16383 setpoints) and more than 65535 setpoints, probed in the tail
    for k in range(6 if tier == "thorough" else 2):
        n = rng.choice([16384, 16390, 17000]) if k % 2 == 0 else rng.choice([65536, 65540, 70000])
        y = dict(flags=rng.choice([0, 1]), offset=rng.randint(-1800, 1800),
                 deltas=[(rng.choice([5, 10, 20]), rng.choice([0, 1, -1, 30, -30, rng.randint(-50, 50)])) for _ in range(n)])
        bs = Y.boundaries(y)
        tail = [(bs[j] + bs[j + 1]) / 2000.0 for j in (n - 1, n - 2, n - 100, 16383 if n > 16384 else n - 3, n // 2)]
        qs = ["y" + fhex(Y.f32(t)) for t in tail] + ["r" + fhex(Y.f32(t)) for t in tail[:3]] + ["d00000000", "y7f800000", "r7f800000", "y" + fhex(Y.f32(tail[0])), "d00000000"]
        yield ("yaw %s %s %s" % ("h" if k % 2 else "f", hexs(Y.encode(y)), ",".join(qs)), "long-block")
    yield ("yaw f empty y00000000,y3f800000,r3f800000,d00000000,y7f800000,r7f800000", "init-empty")
    yield ("yaw h empty y3f800000,d00000000,y3f800000,r00000000", "init-empty")
    for b in ([], [1], [1, 2], [0, 0, 0], [1, 0x10, 0, 5]):
        yield ("yaw f %s y00000000,r3f800000" % hexs(b), "short")


def compare_yaw(case, om, oi, values=True):
    tm, ti = om.split(" "), oi.split(" ")
    if tm[0] != ti[0]:
        return "init model=%s impl=%s" % (tm[0], ti[0])
    if not om.startswith("init:0"):
        return None
    if len(tm) != len(ti):
        return "token count model=%d impl=%d" % (len(tm), len(ti))
    for a, b in zip(tm[1:], ti[1:]):
        if "=" in a and ":" not in a:
            if a != b:
                return "field model=%s impl=%s" % (a, b)
            continue
        pa, pb = a.split(":"), b.split(":")
        if pa[0] != pb[0] or pa[1] != pb[1]:
            return "query model=%s impl=%s" % (a[:80], b[:80])
        if pb[-1] == "X":
            return "history-dependent answer: %s" % b
        if pa[1] != "0":
            continue
        if pa[0] == "d":
            if pa[2] != pb[2]:
                return "duration model=%s impl=%s" % (a, b)
        elif values and pa[0] == "y":
            ex = parse_q(pa[2])
            f = frac_of_bits(int(pb[2], 16))
            tol = parse_q(pa[3]) + abs(ex) / (1 << 22)
            if f is None or abs(f - ex) > tol:
                return "yaw impl=%s exact=%s tol=%s" % (None if f is None else float(f), float(ex), float(tol))
        elif values and pa[0] == "r":
            u = int(pb[2], 16)
            if pa[2] == "inf":
                if u != 0x7f800000:
                    return "rate: model=inf impl=%08x" % u
            else:
                ex = parse_q(pa[2])
                f = frac_of_bits(u)
                if f is None or abs(f - ex) > abs(ex) / (1 << 20) + Fraction(1, 1 << 18):
                    return "rate impl=%s exact=%s" % (None if f is None else float(f), float(ex))
    return None


def compare(case, om, oi):
    return compare_yaw(case, om, oi)


def nontrivial(case, om, oi):
    return om.startswith("init:0") and " n=0 " not in om and (":0:" in om)


def outcome(case, om, oi):
    return om.split(" ")[0]
