"""C11: RTH plan evaluation: exact comparison (all outputs are integers times
the scale, exactly representable in binary32)."""
from fractions import Fraction
from .common import hexs, fhex, frac_of_bits, f32_bits

RULE = ("abstract plans (scale 1..127 and 0, 0..6 points, 0..9 entries with every action code, flag combination, runs of "
        "'same as previous', 1-5 byte varuints for time/duration/delays incl. values around 2^7k, 2^24 and 2^32) encoded by "
        "the generator, plans longer than 64 KiB (more than 16384 points, up to 300 entries), queried at times before/at/after every cumulative time, negative, 0, +-inf, NaN, large; plus a "
        "malformed stream (every truncation, random byte edits, bad point indices, non-canonical varuints). "
        "Non-trivial = plan initialised and at least one query answered successfully with an entry (not the immediate landing).")
EXPLANATION = "discrete fields exact; float fields of the implementation are compared as exact rationals with the integers the model computes"
ASSUMPTIONS = ["(float)uint32 conversion is round-to-nearest-even (x86-64 SSE)"]


def varuint(v, pad=0):
    out = []
    while True:
        b = v & 0x7f
        v >>= 7
        if v or pad:
            out.append(b | 0x80)
            if not v:
                pad -= 1
        else:
            out.append(b)
            break
    return out


def i16(v):
    v &= 0xffff
    return [v & 255, v >> 8]


VALS = [0, 1, 2, 5, 20, 127, 128, 129, 300, 16383, 16384, 2 ** 21 - 1, 2 ** 21, 2 ** 24 - 1, 2 ** 24, 2 ** 24 + 1,
        2 ** 28, 2 ** 32 - 1]


def rand_plan(rng, big):
    scale = rng.choice([1, 1, 2, 10, 127, 0])
    npts = rng.choice([0, 1, 2, 3, 6])
    pts = [(rng.choice([0, 1, -1, 32767, -32768, rng.randint(-3000, 3000)]), rng.randint(-32768, 32767)) for _ in range(npts)]
    nent = rng.choice([0, 1, 2, 3, 4, 6, 9])
    ents = []
    prev = 1
    cum = 0
    for _ in range(nent):
        code = rng.choice([0, 0, 1, 2, 3, 3])
        a = prev if code == 0 else code
        prev = a

        def dur():
            if big and rng.random() < 0.1:
                return rng.choice(VALS)
            return rng.choice([0, 1, 5, 20, 30, 127, 128, 600, 20000])
        dt = rng.choice([0, 0, 1, 5, 15, 100, 128, 3600]) if not (big and rng.random() < 0.15) else rng.choice(VALS)
        e = dict(dt=dt, code=code, point=rng.randrange(0, max(npts, 1) + (1 if rng.random() < 0.05 else 0)),
                 alt=rng.randint(-300, 3000), neck=rng.choice([0, 5, -5, 100]), neckd=dur(), dur=dur(),
                 pre=(dur() if rng.random() < 0.4 else None), post=(dur() if rng.random() < 0.4 else None), a=a,
                 pad=(1 if rng.random() < 0.05 else 0))
        cum += dt
        e["cum"] = cum
        ents.append(e)
    return scale, pts, ents


def encode(scale, pts, ents, flagjunk=0):
    b = [scale & 255, len(pts) & 255, len(pts) >> 8]
    for x, y in pts:
        b += i16(x) + i16(y)
    b += [len(ents) & 255, len(ents) >> 8]
    for e in ents:
        fl = (e["code"] << 4) | (2 if e["pre"] is not None else 0) | (1 if e["post"] is not None else 0) | flagjunk
        b.append(fl)
        b += varuint(e["dt"], e["pad"])
        a = e["a"]
        if e["code"] != 0:
            if a in (2, 3):
                b += varuint(e["point"])
            if a == 3:
                b += i16(e["alt"]) + i16(e["neck"]) + varuint(e["neckd"])
        if a in (2, 3):
            b += varuint(e["dur"])
        if e["pre"] is not None:
            b += varuint(e["pre"])
        if e["post"] is not None:
            b += varuint(e["post"])
    return b


def times_for(rng, ents):
    ts = [-1.0, -0.0, 0.0, float("inf"), float("-inf"), float("nan"), 1e30, 0.5]
    for e in ents:
        c = float(e["cum"])
        ts += [c, c - 0.5, c + 0.5, c - 1, c + 1]
    rng.shuffle(ts)
    return ts[:14] + [float("inf")]


def cases(rng, tier):
    n = 40000 if tier == "thorough" else 2500
    # plans longer than 64 KiB: a point table of more than 16384 points (indices beyond 8 and 14 bits), entries beyond
    # byte offset 65536, more than 255 entries
    for k in range(4 if tier == "thorough" else 1):
        scale = rng.choice([1, 2, 10])
        pts = [(rng.randint(-3000, 3000), rng.randint(-3000, 3000)) for _ in range(rng.choice([16400, 16500, 20000]))]
        ents = []
        cum, prev = 0, 1
        for j in range(rng.choice([40, 60]) if k % 2 == 0 else 300):
            code = rng.choice([0, 1, 2, 3, 3])
            a = prev if code == 0 else code
            prev = a
            dt = rng.choice([0, 1, 5, 100])
            cum += dt
            ents.append(dict(dt=dt, code=code, point=rng.choice([0, 127, 128, 255, 256, 16383, 16384, len(pts) - 1]), alt=rng.randint(-300, 3000),
                             neck=rng.choice([0, 5]), neckd=3, dur=20, pre=None, post=rng.choice([None, 5]), a=a, pad=0, cum=cum))
        b = encode(scale, pts, ents)
        sel = [ents[j] for j in (0, 1, len(ents) // 2, len(ents) - 2, len(ents) - 1)]
        ts = ",".join(fhex(t) for t in [float(e["cum"]) for e in sel] + [float(ents[-1]["cum"]) + 1, -1.0, float("inf")])
        yield ("rth %s 0,255,256,16383,16384,%d,%d,70000 %s" % (hexs(b), len(pts) - 1, len(pts), ts), "long-plan")
    yield ("rth empty 0,1,70000 %s" % ",".join(fhex(t) for t in (-1.0, 0.0, 0.5, 10.0, 1e9, float("inf"), float("nan"))), "init-empty")
    # cumulative times exactly at, one below and one above the 32-bit limit (2^32 - 1 still fits), reached in one or two steps
    for last in (2 ** 32 - 2, 2 ** 32 - 1, 2 ** 32, 2 ** 32 + 5):
        for first in (None, 100, 2 ** 31):
            ents = []
            cum = 0
            for dt in ([first, last - first] if first is not None else [last]):
                cum += dt
                ents.append(dict(dt=dt, code=rng.choice([1, 2]), point=0, alt=10, neck=0, neckd=0, dur=5, pre=None, post=3, a=1, pad=0, cum=cum))
                ents[-1]["a"] = ents[-1]["code"]
            b = encode(2, [(5, -7)], ents)
            ts = ",".join(fhex(t) for t in (0.0, 50.0, 200.0, 3.0e9, 4294967040.0, 5.0e9, float("inf")))
            yield ("rth %s 0,1 %s" % (hexs(b), ts), "cumulative-at-limit")
    # a single number beyond 32 bits (fifth byte 10, 20, 30, 40, 60, 7f; six bytes) in each field that is a varuint:
    # overflow whatever bits of it would fit, at every time that makes the scan reach it
    for field in ("dt", "dur", "pre", "post", "neckd", "point"):
        for v in (2 ** 32, 2 ** 33, 2 ** 33 + 5, 3 * 2 ** 32, 2 ** 34, 3 * 2 ** 33, 2 ** 35 - 1, 2 ** 35, 2 ** 40 + 7):
            e1 = dict(dt=10, code=1, point=0, alt=10, neck=0, neckd=0, dur=5, pre=None, post=None, a=1, pad=0, cum=10)
            e2 = dict(dt=20, code=3, point=1, alt=10, neck=7, neckd=2, dur=30, pre=4, post=3, a=3, pad=0, cum=30)
            e3 = dict(dt=5, code=2, point=0, alt=10, neck=0, neckd=0, dur=8, pre=None, post=None, a=2, pad=0, cum=35)
            e2[field] = v
            b = encode(3, [(5, -7), (100, 200)], [e1, e2, e3])
            ts = ",".join(fhex(t) for t in (0.0, 10.0, 10.5, 30.0, 31.0, 40.0, 1e9, float("inf")))
            yield ("rth %s 0,1,2 %s" % (hexs(b), ts), "varuint-beyond-32-bits")
    for i in range(n):
        big = (i % 4 == 0)
        scale, pts, ents = rand_plan(rng, big)
        b = encode(scale, pts, ents, flagjunk=(rng.choice([0x40, 0x80, 0x0c]) if rng.random() < 0.05 else 0))
        ts = ",".join(fhex(t) for t in times_for(rng, ents))
        pidx = "0,%d,%d,%d" % (max(len(pts) - 1, 0), len(pts), len(pts) + 7)
        yield ("rth %s %s %s" % (hexs(b), pidx, ts), "plan-big" if big else "plan")
        # malformed stream
        if i % 3 == 0 and len(b) > 0:
            kind = rng.choice(["cut", "cut", "edit", "edit", "npts", "rand"])
            if kind == "cut":
                for c in sorted(set([rng.randrange(0, len(b)) for _ in range(3)] + [0, 1, 2, 3, len(b) - 1])):
                    yield ("rth %s %s %s" % (hexs(b[:c]), pidx, ts), "cut")
            elif kind == "edit":
                d = list(b)
                for _ in range(rng.randint(1, 3)):
                    d[rng.randrange(len(d))] = rng.choice([0, 1, 0x7f, 0x80, 0xff, rng.randrange(256)])
                yield ("rth %s %s %s" % (hexs(d), pidx, ts), "edit")
            elif kind == "npts":
                d = list(b)
                d[1] = rng.choice([0xff, len(pts) + 1, 100])
                d[2] = 0xff if rng.random() < 0.04 else 0
                yield ("rth %s %s %s" % (hexs(d), "0,1,50,%d" % (d[1] | d[2] << 8), ts), "npts")
            else:
                d = [rng.randrange(256) for _ in range(rng.randint(0, 30))]
                yield ("rth %s %s %s" % (hexs(d), pidx, ts), "rand")


def _num_eq(m, i):
    """model integer string vs implementation binary32 hex"""
    f = frac_of_bits(int(i, 16))
    return f is not None and f == Fraction(int(m))


def compare(case, om, oi):
    tm, ti = om.split(" "), oi.split(" ")
    if len(tm) != len(ti):
        return "token count model=%s impl=%s" % (om[:150], oi[:150])
    times = case.split(" ")[3].split(",") if len(case.split(" ")) > 3 else []
    qi = 0
    for a, b in zip(tm, ti):
        if a.startswith("p:0:") and b.startswith("p:0:"):
            xs, ys = a[4:].split(","), b[4:].split(",")
            if not all(_num_eq(m, i) for m, i in zip(xs, ys)):
                return "point model=%s impl=%s" % (a, b)
        elif a.startswith("q:0:") and b.startswith("q:0:"):
            xs, ys = a[4:].split(","), b[4:].split(",")
            for k, (m, i) in enumerate(zip(xs, ys)):
                if k == 1:
                    ok = m == i
                elif m == "in":
                    ok = int(i, 16) == int(times[qi], 16)
                else:
                    ok = _num_eq(m, i)
                if not ok:
                    return "query %d field %d model=%s impl=%s" % (qi, k, a, b)
        elif a != b:
            return "token model=%s impl=%s" % (a, b)
        if a.startswith("q:"):
            qi += 1
    return None


def nontrivial(case, om, oi):
    return om.startswith("init:0") and any(t.startswith("q:0:") and not t.startswith("q:0:in") for t in om.split(" "))


def outcome(case, om, oi):
    if not om.startswith("init:0"):
        return om.split(" ")[0]
    qs = [t for t in om.split(" ") if t.startswith("q:")]
    kinds = sorted(set((t[:4] if t.startswith("q:e") else "q:ok") for t in qs))
    return "init:0 " + "+".join(kinds)
