"""C13: proposed takeoff time = first crossing of the takeoff altitude minus the
travel time of the climb.  The crossing is checked against a certified root box
(exact rational interval arithmetic: no root before it, sign change inside)."""
from fractions import Fraction
from .common import hexs, fhex, frac_of_bits, parse_q, f32_bits, bits_f32
from . import statgen as S
from . import trajgen as G

RULE = ("trajectories whose altitude segments are constant, linear or well-conditioned cubic (cubic coefficient >= 5% of the "
        "larger of the quadratic and linear ones), 1..7 segments (also preceded by a hover long enough to put the climb beyond byte offset 65536), scales {1,2,10}; parameter triples: ascent from 0 to above the "
        "highest altitude (never reached), speeds and accelerations incl. infinite acceleration and every invalid combination "
        "(negative, zero, NaN, infinite); a class aimed at the closed forms (climb from rest at constant acceleration: linear and cubic coefficient exactly zero; deceleration to rest; a linear climb stored as a cubic); a class of segments that overshoot the target and end exactly on it (finding D20). Non-trivial = a crossing exists and the parameters are valid.")
EXPLANATION = ("invalid parameters / no crossing: infinity on both interfaces; otherwise earliest_above within the certified box "
               "[S + a d, S + b d] widened by 1% of the segment duration for cubic segments (float Cardano) or 1e-5 relative otherwise; "
               "takeoff = earliest - travel time (travel time modelled bit-exactly); the statistics interface equals the proposal")
ASSUMPTIONS = ["cubic root tolerance 1% of the segment duration, crossings within 0.3% of a segment end are outside the calibrated domain (finding D16)",
               "first_root certificates: Proofs/RootCert_Proofs.v"]


def f32(x):
    return bits_f32(f32_bits(x))


def cases(rng, tier):
    n = 20000 if tier == "thorough" else 1500
    nlong = 12 if tier == "thorough" else 3
    for i in range(n + nlong):
        long = i >= n
        tr, scale = S.climb_traj(rng, long=long)
        zs = [tr["start"][2]]
        for s in tr["segs"]:
            zs += s["z"]
        zmax = max(zs) * scale
        z0 = tr["start"][2] * scale
        b = hexs(G.encode(tr))
        for _ in range(4):
            r = rng.random()
            if r < 0.6:
                h = f32(rng.uniform(0, max(zmax - z0, 1)))
            elif r < 0.75:
                h = f32(max(zmax - z0, 0) + rng.choice([0.0, 1.0, 500.0]))
            elif r < 0.85:
                h = rng.choice([0.0, 2.5, 1e-3])
            else:
                h = rng.choice([-1.0, float("nan"), float("inf"), 1e9])
            v = rng.choice([2.0, 1.0, 500.0, f32(rng.uniform(0.1, 3000))] + ([0.0, -1.0, float("nan"), float("inf")] if rng.random() < 0.15 else []))
            a = rng.choice([4.0, 1.0, float("inf"), 2000.0, f32(rng.uniform(0.1, 5000))] + ([0.0, -2.0, float("nan")] if rng.random() < 0.15 else []))
            yield ("stats takeoff %s %s %s %s" % (b, fhex(h), fhex(v), fhex(a)), "long-block" if long else "gen")
    # aimed at the closed forms behind touches: a climb from rest at constant acceleration (cubic Bezier z0, z0, z0+A/3,
    # z0+A = the quadratic z0 + A u^2: the linear and the cubic coefficient are exactly zero in binary32), its mirror
    # (deceleration to rest) and a pure linear climb stored as a cubic, with the target inside the segment
    for i in range(n // 10):
        scale = rng.choice([1, 1, 2])
        z0 = rng.choice([0, 0, 600, rng.randint(0, 300)])
        A = 3 * rng.choice([100, 1000, 333, 2500, rng.randint(10, 3000)])
        kind = rng.choice(["accel", "accel", "decel", "linear"])
        if kind == "accel":
            zs = [z0, z0 + A // 3, z0 + A]
        elif kind == "decel":
            zs = [z0 + 2 * A // 3, z0 + A, z0 + A]
        else:
            zs = [z0 + A // 3, z0 + 2 * A // 3, z0 + A]
        if max(zs) > 32767:
            continue
        segs = []
        if rng.random() < 0.5:
            segs.append(dict(dur=rng.choice([1000, 4000]), x=[rng.randint(-500, 500)], y=[], z=[], yaw=[]))
        segs.append(dict(dur=rng.choice([2000, 4000, 10000]), x=[], y=[], z=zs, yaw=[]))
        segs.append(dict(dur=5000, x=[], y=[], z=[zs[-1] + 1000], yaw=[]))
        tr = dict(scale=scale, use_yaw=False, start=[0, 0, z0, 0], segs=segs)
        for fr in (0.25, 0.5, rng.uniform(0.05, 0.95), 1.2):
            h = f32(A * scale * fr)
            yield ("stats takeoff %s %s %s %s" % (hexs(G.encode(tr)), fhex(h), fhex(rng.choice([1000.0, 2.0e6])), fhex(rng.choice([float("inf"), 1.0e6]))),
                   "closed-form-" + kind)
    # aimed: the takeoff altitude lies inside a jump (a legal 0 ms segment from below it to above it); nothing before
    # reaches it, everything after starts above it: the altitude is reached at the instant of the jump
    for i in range(n // 25):
        scale = rng.choice([1, 1, 2])
        z0 = rng.randint(0, 100)
        low = z0 + rng.randint(200, 1500)
        high = low + rng.randint(1000, 6000)
        zstep = rng.choice([[high], [low + 10, high - 10, high]])
        segs = [dict(dur=rng.choice([1000, 2000, 7000]), x=[], y=[rng.randint(-300, 300)], z=[low], yaw=[]),
                dict(dur=0, x=[], y=[], z=zstep, yaw=[]),
                dict(dur=rng.choice([1000, 5000]), x=[rng.randint(-300, 300)], y=[], z=[], yaw=[])]
        if rng.random() < 0.5:
            segs.append(dict(dur=4000, x=[], y=[], z=[z0], yaw=[]))
        tr = dict(scale=scale, use_yaw=False, start=[0, 0, z0, 0], segs=segs)
        for fr in (0.3, 0.6, rng.uniform(0.05, 0.95)):
            h = f32((low - z0 + (high - low) * fr) * scale)
            yield ("stats takeoff %s %s %s %s" % (hexs(G.encode(tr)), fhex(h), fhex(rng.choice([1000.0, 2.0e6])), fhex(rng.choice([float("inf"), 1.0e6]))),
                   "crossing-in-a-jump")
    # aimed: a segment whose altitude reaches the target inside it AND ends exactly on it (overshoot that settles on
    # the takeoff altitude): quadratic profiles z0 + h((1+r)/r u - u^2/r), r the parameter of the first crossing,
    # stored as cubics with integer control points
    for i in range(n // 15):
        scale = rng.choice([1, 1, 2])
        z0 = rng.randint(0, 100)
        hq = 9 * rng.randint(20, 400)               # stored units
        r = rng.choice([(1, 4), (1, 2), (3, 4)])
        bq = hq * (r[1] + r[0]) // r[0]             # h (1 + r) / r
        z1, z2, z3 = z0 + bq // 3, z0 + (bq + hq) // 3, z0 + hq
        if max(z1, z2, z3) > 32767:
            continue
        segs = []
        if rng.random() < 0.5:
            segs.append(dict(dur=rng.choice([1000, 4000]), x=[rng.randint(-500, 500)], y=[], z=[], yaw=[]))
        segs.append(dict(dur=rng.choice([2000, 10000, 30000]), x=[], y=[], z=[z1, z2, z3], yaw=[]))
        segs.append(dict(dur=5000, x=[], y=[], z=[z3 + 2000], yaw=[]))
        tr = dict(scale=scale, use_yaw=False, start=[0, 0, z0, 0], segs=segs)
        yield ("stats takeoff %s %s %s %s" % (hexs(G.encode(tr)), fhex(float(hq * scale)), fhex(rng.choice([1000.0, 2.0e6])), fhex(rng.choice([float("inf"), 1.0e6]))),
               "ends-on-target")


def _f(x):
    return frac_of_bits(int(x, 16))


INF = 0x7f800000


def compare(case, om, oi):
    if om.startswith("init:"):
        return None if oi.startswith("init:") else "model=%s impl=%s" % (om, oi)
    for tok in oi.split(" "):
        if tok.startswith("masks=") and tok != "masks=same":
            return "the statistics depend on which other components are computed in the same pass: %s" % tok
    f = oi.split(" ")
    tk = int(f[0][8:], 16)
    st = f[1][6:].split(":")
    if om == "invalid":
        if tk != INF:
            return "invalid parameters: proposal is %08x, expected infinity" % tk
        if st[0] != "e2":
            # the statistics interface validates the same parameters
            return "invalid parameters: statistics interface returned %s" % st[0]
        return None
    if om.startswith("e"):
        return None if tk == INF else "model=%s impl=%s" % (om, oi)
    if st[0] != "0":
        return "statistics interface failed: %s (model %s)" % (oi, om[:80])
    if int(st[1], 16) != tk:
        return "statistics interface reports %s, proposal %08x" % (st[1], tk)
    earliest = int(st[2], 16)
    m = om.split(" ")
    travel = m[1][7:]
    if m[0] == "none":
        if tk != INF or earliest != INF:
            # float evaluation of a cubic can reach a target that the exact curve misses by a hair:
            # accepted when the exact maximum is within 0.1% (+1e-3) of the target altitude
            w = case.split(" ")
            h = _f(w[3])
            zmax = parse_q(m[2][5:]) if len(m) > 2 and m[2].startswith("zmax=") and m[2] != "zmax=none" else None
            if h is not None and zmax is not None:
                # target = z0 + h is not printed: use the gap through the certified bound
                z0 = Fraction(int.from_bytes(bytes.fromhex(w[2][10:14]), "little", signed=True) * (int(w[2][0:2], 16) & 0x7f))
                target = z0 + h
                if target - zmax <= abs(target) / 1000 + Fraction(1, 1000):
                    return None
            return "altitude never reached but impl reports takeoff=%08x earliest=%08x" % (tk, earliest)
        return None
    p = m[0].split(":")
    S0, d, a, b, deg = Fraction(int(p[1]), 1000), Fraction(int(p[2]), 1000), parse_q(p[3]), parse_q(p[4]), int(p[5])
    near_end = deg >= 3 and (a < Fraction(3, 1000) or b > Fraction(997, 1000))
    Elo, Ehi = S0 + a * d, S0 + b * d
    tolE = (d / 100 if deg >= 3 else 0) + Fraction(1, 100000) * (1 + Ehi) + Fraction(1, 1000000) + G.root_time_slack(list(bytes.fromhex(case.split(" ")[2])), int(p[1]))
    e = frac_of_bits(earliest)
    if e is None:
        if near_end:
            return "D16: crossing within 0.3%% of a cubic segment's end is missed (model %s)" % m[0][:60]
        return "altitude is reached in [%s, %s] but impl reports earliest=%08x" % (float(Elo), float(Ehi), earliest)
    if e < Elo - tolE:
        # earlier than the certified first crossing: acceptable only if the altitude there is the target
        # within the float tolerance of the closed-form solver (the property compares E through the altitude it yields)
        w = case.split(" ")
        bts = bytes.fromhex(w[2])
        z0 = Fraction(int.from_bytes(bts[5:7], "little", signed=True) * (bts[0] & 0x7f))
        target = z0 + _f(w[3])
        z_at = G.altitude_at(list(bts), e)
        if abs(z_at - target) <= abs(target) / 1000 + Fraction(1, 100):
            return None
        return "impl reports the altitude reached at %s where the exact altitude is %s (target %s); first certified crossing at [%s, %s]" % (
            float(e), float(z_at), float(target), float(Elo), float(Ehi))
    if not (Elo - tolE <= e <= Ehi + tolE):
        # D20: the value is also taken exactly at the end of the segment and that end is reported instead of the first crossing
        if abs(e - (S0 + d)) <= tolE and e > Ehi:
            w = case.split(" ")
            bts = bytes.fromhex(w[2])
            z0 = Fraction(int.from_bytes(bts[5:7], "little", signed=True) * (bts[0] & 0x7f))
            if G.altitude_at(list(bts), S0 + d) == z0 + _f(w[3]):
                return "D20: the altitude is reached inside the segment at [%s, %s] and again exactly at its end; the end %s is reported" % (float(Elo), float(Ehi), float(e))
        if near_end:
            return "D16: crossing within 0.3%% of a cubic segment's end is misplaced (model %s, impl %s)" % (m[0][:60], float(e))
        return "earliest crossing impl=%s certified [%s, %s] tol %s (degree %d)" % (float(e), float(Elo), float(Ehi), float(tolE), deg)
    if travel in ("inf", "nan", "-inf"):
        return None if tk == INF else "travel time is not finite but takeoff=%08x" % tk
    T = parse_q(travel)
    t = frac_of_bits(tk)
    if t is None:
        return "takeoff not finite although earliest=%s and travel=%s" % (float(e), float(T))
    if abs(t - (e - T)) > Fraction(1, 1000000) * (1 + abs(e) + abs(T)):
        return "takeoff %s != earliest %s - travel %s" % (float(t), float(e), float(T))
    return None


def finding_key(case, om, oi, d):
    if d.startswith("D20:"):
        return "D20 crossing-inside-and-exactly-at-segment-end"
    return "D16 cubic-crossing-near-segment-end" if d.startswith("D16:") else d


def nontrivial(case, om, oi):
    return om.startswith("in:")


def outcome(case, om, oi):
    return om.split(":")[0].split(" ")[0]
