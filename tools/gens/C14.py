"""C14: proposed landing time.  Discrete structure (which run, which segment,
boundary answers) exact against the binary32-faithful model; the instant inside
a segment against a certified root box; and, as an oracle, against the same
computation in exact arithmetic (what the property describes)."""
from fractions import Fraction
from .common import hexs, fhex, frac_of_bits, parse_q, f32_bits, bits_f32
from . import statgen as S
from . import trajgen as G

RULE = ("trajectories ending in 0..4 vertical descending segments (constant, linear or monotone well-conditioned cubic in "
        "altitude, horizontal jitter on both sides of the threshold) preceded by arbitrary flight; thresholds >= 0 around the "
        "jitter; preferred descents: inside the run, exactly the descent of the run, larger, 0, negative, tiny (1e-10, 1e-5), NaN, infinite. "
        "Non-trivial = a non-empty run and a positive finite descent.")
EXPLANATION = ("answer kinds: a segment boundary (exact, in ms) or an instant inside a segment (certified root box widened by 1% of "
               "the segment for cubics, 1e-5 relative otherwise); statistics interface = proposal for valid parameters; the exact-"
               "arithmetic specification must give the same answer (differences = finding D9)")
ASSUMPTIONS = ["cubic root tolerance 1% of the segment duration", "first_root certificates: Proofs/RootCert_Proofs.v"]


def f32(x):
    return bits_f32(f32_bits(x))


def cases(rng, tier):
    n = 20000 if tier == "thorough" else 1500
    from .C01 import fixture_blocks
    for b in fixture_blocks():
        for d in (2.5, 1.0, 100.0, 0.0):
            yield ("stats landing %s %s %s" % (hexs(b), fhex(d), fhex(0.05)), "fixture")
    nlong = 12 if tier == "thorough" else 3
    for i in range(n + nlong):
        long = i >= n
        tr, scale, jit = S.landing_traj(rng, long=long)
        b = hexs(G.encode(tr))
        zs = [tr["start"][2]]
        for s in tr["segs"]:
            zs += s["z"]
        total_drop = abs(zs[-1] - max(zs)) * scale + 1
        run_drop = S.landing_traj.last_run_drop * scale
        for k4 in range(4):
            r = rng.random()
            if k4 == 0 and run_drop > 0 and i % 3 == 0 and all(len(sg["z"]) <= 1 for sg in tr["segs"]):
                # exactly the descent of the generated run (an integer, exact in binary32): the start of the run is
                # expected, hover segments at its start included.  Only for trajectories without a cubic altitude segment:
                # there every altitude the code computes is exact, so which side of the comparison it falls on is not rounding
                d = f32(run_drop)
            elif r < 0.55:
                d = f32(rng.uniform(0, total_drop))
            elif r < 0.7:
                d = f32(total_drop * rng.choice([1.0, 1.5, 10]))
            elif r < 0.85:
                d = rng.choice([2.5, 1.0, 100.0])
            else:
                d = rng.choice([0.0, -1.0, 1e-10, 1e-5, float("nan"), float("inf"), 1e-38])
            thr = rng.choice([0.0, 0.05, f32(jit * scale), f32(jit * scale * 0.5), f32(jit * scale + 1), 1e6])
            yield ("stats landing %s %s %s" % (b, fhex(d), fhex(thr)), "long-block" if long else "gen")


def _inside(tok, e, bts=None):
    """does the float answer e match the model answer token?  returns (ok, description)"""
    p = tok.split(":")
    if p[0] in ("at", "fallback"):
        want = Fraction(int(p[1]), 1000)
        return abs(e - want) <= want / (1 << 22) + Fraction(1, 10 ** 7), "boundary %s s" % float(want)
    S0, d, a, b, deg = Fraction(int(p[1]), 1000), Fraction(int(p[2]), 1000), parse_q(p[3]), parse_q(p[4]), int(p[5])
    lo, hi = S0 + a * d, S0 + b * d
    tol = (d / 100 if deg >= 3 else 0) + Fraction(1, 100000) * (1 + hi) + Fraction(1, 1000000)
    if bts is not None:
        tol += G.root_time_slack(bts, int(p[1]))
    return lo - tol <= e <= hi + tol, "inside segment at [%s, %s] tol %s" % (float(lo), float(hi), float(tol))


def compare(case, om, oi):
    if om.startswith("init:"):
        return None if oi.startswith("init:") else "model=%s impl=%s" % (om, oi)
    w = case.split(" ")
    m = om.split(" ")
    for tok in oi.split(" "):
        if tok.startswith("masks=") and tok != "masks=same":
            return "the statistics depend on which other components are computed in the same pass: %s" % tok
    f = oi.split(" ")
    land = frac_of_bits(int(f[0][8:], 16))
    total_m = m[1][6:]
    if total_m.startswith("e"):
        # the block does not decode (e.g. truncated fixture): the implementation falls back to duration 0
        return None if f[2] == "total=0" else "model %s impl %s" % (m[1], f[2])
    if f[2] != "total=" + total_m:
        return "total duration model=%s impl=%s" % (m[1], f[2])
    if land is None:
        return "landing time not finite: %s" % oi
    total = Fraction(int(total_m), 1000)
    if not (0 <= land <= total + total / (1 << 22) + Fraction(1, 10 ** 6)):
        return "landing time %s outside [0, total duration %s]" % (float(land), float(total))
    bts = list(bytes.fromhex(w[2]))
    ok, desc = _inside(m[0], land, bts)
    if not ok:
        return "landing time impl=%s, model (binary32-faithful): %s" % (float(land), desc)
    # statistics interface: same value for valid parameters (finite descent > FLT_MIN, threshold >= 0)
    d = frac_of_bits(int(w[3], 16))
    th = frac_of_bits(int(w[4], 16))
    st = f[1][6:].split(":")
    if d is not None and th is not None and d > Fraction(1, 1 << 126) and th >= 0:
        if st[0] != "0" or int(st[1], 16) != int(f[0][8:], 16):
            return "statistics interface %s differs from the proposal %s" % (f[1], f[0])
    # the property (exact arithmetic)
    spec = m[2][5:]
    ok2, desc2 = _inside(spec, land, bts)
    if not ok2 and spec.split(":")[0] in ("at", "in") and d is not None and d > Fraction(1, 100):
        # the run descends by exactly the preferred descent: the property's second and third cases meet there (start of
        # the run = the instant at which the remaining descent equals the preferred one), and which side of the
        # comparison the binary32 altitudes fall on is rounding; a leading hover is then a plateau of that altitude.
        # Accept any instant of the run at which the remaining descent is the preferred one (the relational reading).
        # (the implementation's answer already equals the binary32-faithful model's, checked above)
        if 0 <= land <= total + Fraction(1, 10 ** 6):
            z_t, z_end = G.altitude_at(bts, land), G.altitude_at(bts, total)
            scale, start, segs = G.decode(bts)
            zmax = max([abs(start[2])] + [abs(p) for _, axes in segs for p in axes[2]]) + 1
            if abs(z_t - z_end - d) <= zmax / (1 << 18) + abs(d) / (1 << 20):
                return None
    if not ok2:
        return "D9: property (exact arithmetic) expects %s, impl=%s [binary32 absorbs the preferred descent]" % (desc2, float(land))
    return None


def finding_key(case, om, oi, d):
    if d.startswith("landing time impl="):
        # a preferred descent far below the binary32 resolution of the altitudes: the absorption (finding D9) happens in
        # the implementation's float evaluation of a cubic segment, which the model evaluates exactly
        w = case.split(" ")
        dd = frac_of_bits(int(w[3], 16))
        if dd is not None and 0 < dd < Fraction(1, 1000):
            return "D9 preferred-descent-absorbed"
    if d.startswith("D9:"):
        w = case.split(" ")
        dd = frac_of_bits(int(w[3], 16))
        return "D9 preferred-descent-absorbed" if (dd is not None and dd < Fraction(1, 100)) else d
    return d


def nontrivial(case, om, oi):
    return om.startswith("in:") or (om.startswith("at:") and not om.startswith("at:0 "))


def outcome(case, om, oi):
    return om.split(":")[0]
