"""C15: bounding box contains the whole trajectory and is tight: each face of
the reported box lies within float tolerance of certified bounds on the exact
extrema (interval subdivision over exact rational arithmetic)."""
from fractions import Fraction
from .common import hexs, frac_of_bits, parse_q
from . import trajgen as G

RULE = ("trajectories with 1..8 segments whose x, y, z encodings are constant, linear or cubic (all combinations), all scales, "
        "coordinates incl. +-32767/-32768, interior extrema frequent (control points outside the end-point range); a class "
        "aimed at the closed-form solvers (derivative with an exactly zero linear or quadratic coefficient, coincident control "
        "points), a class with zero-duration segments that leave the hull of the others, a class with degree-7 axes (recorded "
        "finding D13), blocks longer than 64 KiB with the extreme segment at the end; the repository fixtures. Non-trivial = at least one cubic axis.")
EXPLANATION = ("for every axis: certified [min_lo, min_hi] and [max_lo, max_hi] enclose the exact extrema over all segments; the "
               "implementation's face must lie in that enclosure widened by the float tolerance: contains everything and is attained")
ASSUMPTIONS = ["float tolerance 200 * 2^-23 * 27 * max|coordinate| + 1e-4 * (range of the axis) is an assumed bound",
               "poly_max/poly_min enclosures: Proofs/RootCert_Proofs.v"]
EPS = Fraction(1, 1 << 23)


def cases(rng, tier):
    n = 20000 if tier == "thorough" else 1500
    from .C01 import fixture_blocks
    for b in fixture_blocks():
        yield ("stats bbox %s" % hexs(b), "fixture")
    for i in range(n):
        hi = (i % 25 == 0)
        tr = G.rand_traj(rng, nseg=rng.choice([1, 2, 3, 5, 8]), maxdeg=(7 if hi else 3))
        if i % 6 == 1 and not hi:
            G.close_loops(rng, tr)          # curved segments that end exactly where they start
        yield ("stats bbox %s" % hexs(G.encode(tr)), "deg7" if hi else "gen")
    # blocks longer than 64 KiB whose extreme segments lie beyond byte offset 65536
    for i in range(8 if tier == "thorough" else 1):
        tr = G.rand_traj(rng, nseg=rng.choice([2, 3]), maxdeg=3)
        st = tr["start"]
        tr["segs"] = G.long_prefix(rng, st[0], st[1], st[2], deg=3, flat_z=False) + tr["segs"]
        tr["segs"][-1]["x"] = [rng.choice([30000, -30000])] * max(1, len(tr["segs"][-1]["x"]))
        yield ("stats bbox %s" % hexs(G.encode(tr)), "long-block")
    # aimed at the closed-form solvers: cubic axes whose derivative has an exactly zero linear coefficient
    # (control points with p0 - 2 p1 + p2 = 0), zero quadratic coefficient, coincident control points
    for i in range(n // 5):
        tr = G.rand_traj(rng, nseg=rng.choice([1, 2, 3]), maxdeg=3)
        prev = list(tr["start"][:3])                      # in stored units (times scale on both sides)
        for s in tr["segs"]:
            for ai, ax in enumerate("xyz"):
                if len(s[ax]) == 3 and rng.random() < 0.7:
                    p0 = prev[ai]
                    d = rng.randint(-2500, 2500)
                    kind = rng.choice(["b0", "b0", "flat", "same", "rest-overshoot", "rest-overshoot"])
                    if kind == "b0":
                        s[ax] = [p0 + d, p0 + 2 * d, rng.choice([p0, p0 - d, rng.randint(-6000, 6000)])]
                    elif kind == "rest-overshoot":
                        # starts from rest (first control point = start: the derivative has no constant term) and
                        # overshoots its end point inside the segment
                        s[ax] = [p0, p0 + d + d // 2, p0 + d]
                    elif kind == "flat":
                        s[ax] = [p0, p0, p0 + d]
                    else:
                        s[ax] = [p0 + d, p0 + d, p0]
                    s[ax] = [max(-32768, min(32767, v)) for v in s[ax]]
                if s[ax]:
                    prev[ai] = s[ax][-1]
        yield ("stats bbox %s" % hexs(G.encode(tr)), "aimed-solver")
    # zero-duration segments (also the last one) that leave the hull of the others
    for i in range(n // 10):
        tr = G.rand_traj(rng, nseg=rng.choice([2, 3, 4]), maxdeg=3)
        k = rng.choice([len(tr["segs"]) - 1, rng.randrange(len(tr["segs"]))])
        tr["segs"][k]["dur"] = 0
        for ax in "xyz":
            if tr["segs"][k][ax]:
                tr["segs"][k][ax] = [rng.choice([20000, -20000, 30000]) for _ in tr["segs"][k][ax]]
            elif rng.random() < 0.6:
                tr["segs"][k][ax] = [rng.choice([20000, -20000])]
        yield ("stats bbox %s" % hexs(G.encode(tr)), "zero-duration-segment")
    # positions at the very limits of the stored coordinates (raw -32768 and 32767, which are not symmetric), as start
    # point, as the end of a straight segment and as an inner control point of a curve, on every axis, at several scales
    for i in range(24 if tier == "thorough" else 12):
        tr = G.rand_traj(rng, nseg=rng.choice([1, 2, 3]), degs=None if i % 2 else [1, 1, 1, 0], maxdeg=3)
        ax = ("x", "y", "z")[i % 3]
        lim = (-32768, 32767)[(i // 3) % 2]
        where = rng.choice(["start", "end", "end", "inner"])
        if where == "start":
            tr["start"][i % 3] = lim
        else:
            k = rng.randrange(len(tr["segs"]))
            if where == "inner" and len(tr["segs"][k][ax]) >= 3:
                tr["segs"][k][ax][1] = lim
            else:
                n = max(1, len(tr["segs"][k][ax]))
                tr["segs"][k][ax] = ([0] * (n - 1)) + [lim] if n > 1 else [lim]
        tr["scale"] = rng.choice([1, 10, 100, 127])
        yield ("stats bbox %s" % hexs(G.encode(tr)), "coordinate-limits")


def compare(case, om, oi):
    if om.startswith("init:") or om.startswith("e"):
        return None if (oi.startswith("init:") or oi.startswith("bbox=e")) else "model=%s impl=%s" % (om, oi)
    if om == "empty":
        return None
    if not oi.startswith("bbox=0:"):
        return "model=%s impl=%s" % (om[:80], oi[:80])
    faces = [frac_of_bits(int(x, 16)) for x in oi[7:].split(",")]
    axes = om.split(" ")[1:]
    for k, ax in enumerate(axes):
        f = ax[2:].split(":")
        mnl, mnu, mxl, mxu = [parse_q(x) for x in f[:4]]
        deg = int(f[4])
        mn, mx = faces[2 * k], faces[2 * k + 1]
        if deg > 3:
            # D13: extrema of degree-7 segments are not computed
            if mn is None or mx is None or not (mnl - 1 <= mn <= mnu + 1 and mxl - 1 <= mx <= mxu + 1):
                return "bounding box of a degree-7 axis is not computed (axis %s)" % "xyz"[k]
            continue
        mag = max(abs(mnl), abs(mxu), 1)
        tol = 200 * EPS * 27 * mag + (mxu - mnl) / 10000
        if mn is None or mx is None:
            return "axis %s: face not finite: %s" % ("xyz"[k], oi)
        if not (mnl - tol <= mn <= mnu + tol):
            return "axis %s: min face %s not within %s of the certified minimum [%s, %s]" % ("xyz"[k], float(mn), float(tol), float(mnl), float(mnu))
        if not (mxl - tol <= mx <= mxu + tol):
            return "axis %s: max face %s not within %s of the certified maximum [%s, %s]" % ("xyz"[k], float(mx), float(tol), float(mxl), float(mxu))
    # the start point and the end point of every segment are stored numbers (16 bits times an integer scale: exact in
    # binary32) and positions of the trajectory: the box contains them exactly
    # (the tolerance above is that of the inner extrema of cubics, orders of magnitude wider)
    w = case.split(" ")
    try:
        scale, start, segs = G.decode(list(bytes.fromhex(w[2])))
    except Exception:
        return None
    # (every such point but the very last is the constant coefficient of a segment's polynomial, evaluated at u = 0
    # without rounding; the last one is a + b + c + d in binary32 unless that axis of the last segment is straight)
    for k, ax in enumerate(axes):
        if int(ax[2:].split(":")[4]) > 3:
            continue
        mn, mx = faces[2 * k], faces[2 * k + 1]
        pts = [start[k]] + [sa[k][-1] for _, sa in segs[:-1]]
        if segs and len(segs[-1][1][k]) <= 2:
            pts.append(segs[-1][1][k][-1])
        for pk in pts:
            p = {k: pk}
            tolp = 2 * EPS * max(abs(p[k]), 1)
            if not (mn - tolp <= p[k] <= mx + tolp):
                return "axis %s: the stored position %s (a start or end point of a segment) lies outside the box [%s, %s]" % ("xyz"[k], float(p[k]), float(mn), float(mx))
    return None


def finding_key(case, om, oi, d):
    if d.startswith("bounding box of a degree-7 axis"):
        return "D13 bbox-degree7"
    return d


def nontrivial(case, om, oi):
    return om.startswith("ok") and (":3 " in om + " " or ":3" == om[-2:])


def outcome(case, om, oi):
    return om.split(" ")[0]
