"""C16: trajectory builder: bytes and sizes after every call exact (binary32
quantisation modelled bit-exactly), error calls change nothing, the finished
trajectory passes within one quantum of the points given and lasts exactly the
sum of the requested durations."""
import itertools
from fractions import Fraction
from .common import hexs, fhex, frac_of_bits, parse_q, f32_bits, bits_f32
from .C01 import _cmp_vec

RULE = ("all call sequences up to length 4 (quick) / 5 (thorough) over an alphabet of set-start / append-line / hold / finish "
        "calls with scales {1,2,10,127}, durations {0,1,59999,60000,60001,150000,10^7}, coordinates inside the representable "
        "range, at its ends (+-32767*scale, -32768*scale) and outside it, fractional coordinates, yaw incl. negative and "
        ">= 360; plus long random sequences, holds and lines of weeks (chunk counts around 2^16, hold durations up to 2^32-1 ms, lines of hours) and "
        "(thorough) a sequence of 6200 calls (more than 64 KiB of output in 11-byte segments). Non-trivial = a sequence with at least one successful append and a finish.")
EXPLANATION = ("tokens per call (result code, buffer size), finished trajectory bytes and final builder bytes exact; positions "
               "at the cumulative time of each successful call within tol_at of the exact model AND (oracle from the property) "
               "within one quantum of the requested point, yaw within 0.1 degree modulo 360; total duration = sum of requested")
ASSUMPTIONS = ["binary32 division/multiplication rounding modelled by Base/F32.v (validated by C20's fop cases)"]


def f32(x):
    return bits_f32(f32_bits(x))


def coord(rng, scale, kind=None):
    kind = kind or rng.choice(["in", "in", "in", "frac", "edge", "out"])
    if kind == "in":
        return f32(scale * rng.randint(-3000, 3000))
    if kind == "frac":
        return f32(scale * rng.randint(-3000, 3000) + rng.choice([0.25, 0.5, 0.75, 0.1, -0.3]) * scale)
    if kind == "edge":
        return f32(scale * rng.choice([32767, -32768, 32766, -32767]))
    return f32(scale * rng.choice([32768, -32769, 40000, -50000, 32767.6, 1e9]))


def point(rng, scale, bad=False):
    ks = ["in", "frac", "edge"]
    p = [coord(rng, scale, rng.choice(ks)) for _ in range(3)]
    if bad:
        p[rng.randrange(3)] = coord(rng, scale, "out")
    yaw = rng.choice([0.0, 90.0, 359.9, 360.0, 725.5, -90.0, -0.05, 12.34, 3600.0])
    return p + [f32(yaw)]


def fmt_point(p):
    return ":".join(fhex(v) for v in p)


def alphabet(rng, scale):
    return [
        "S:" + fmt_point(point(rng, scale)),
        "S:" + fmt_point(point(rng, scale, bad=True)),
        "L:" + fmt_point(point(rng, scale)) + ":1000",
        "L:" + fmt_point(point(rng, scale)) + ":" + str(rng.choice([1, 59999, 60000])),
        "L:" + fmt_point(point(rng, scale)) + ":" + str(rng.choice([60001, 150000, 10 ** 7])),
        "L:" + fmt_point(point(rng, scale, bad=True)) + ":" + str(rng.choice([500, 70000])),
        "H:" + str(rng.choice([0, 1, 60000, 60001, 130000])),
        "F",
        "I:" + str(rng.choice([0, 128, 255, 200])),      # init with an invalid scale on a builder in use: an error, nothing changes
    ]


def cases(rng, tier):
    thorough = tier == "thorough"
    yield ("build 0 0 F", "bad-scale")
    yield ("build 128 0 F", "bad-scale")
    L = 5 if thorough else 4
    for scale in (1, 10) if not thorough else (1, 2, 10, 127):
        al = alphabet(rng, scale)
        for k in range(1, L + 1):
            for seq in itertools.product(range(len(al)), repeat=k):
                if k == L and not thorough and rng.random() < 0.5:
                    continue
                calls = [al[i] for i in seq]
                if "F" not in calls:
                    calls = calls + ["F"]
                yield ("build %d %d %s" % (scale, rng.choice([0, 1]), ";".join(calls)), "seq%d" % k)
    for i in range(6000 if thorough else 500):
        scale = rng.choice([1, 1, 2, 10, 127, rng.randint(1, 127)])
        calls = []
        for _ in range(rng.randint(3, 14)):
            r = rng.random()
            if r < 0.1:
                calls.append("S:" + fmt_point(point(rng, scale, bad=rng.random() < 0.2)))
            elif r < 0.7:
                d = rng.choice([0, 1, 20, 1000, 59999, 60000, 60001, 65535, 65536, 120001, 500000, 3600000, rng.randint(0, 200000)])
                calls.append("L:" + fmt_point(point(rng, scale, bad=rng.random() < 0.1)) + ":" + str(d))
            elif r < 0.86:
                calls.append("H:" + str(rng.choice([0, 1, 999, 60000, 60001, 180000, rng.randint(0, 300000)])))
            elif r < 0.9:
                calls.append("I:" + str(rng.choice([0, 128, 255])))
            else:
                calls.append("F")
        calls.append("F")
        yield ("build %d %d %s" % (scale, rng.choice([0, 1]), ";".join(calls)), "long")
    # holds and lines of days and weeks ("however long they are"): tens of thousands of 60 s segments, chunk counts
    # around 2^16, durations up to 2^32 - 1 ms; and trajectories whose bytes exceed 64 KiB
    # (the last 60 s below 2^32 ms is where a rounded-up chunk count wraps: always present, with its lower edge)
    top = 2 ** 32 - 1
    huge = [3932159999, 3932160000, 3932160001, 3932220000, 4000000000, 65535 * 60000, 65537 * 60000 + 1, 2 ** 31, 2 ** 31 + 60001,
            top - 59999, top - 59998, top - 60000, top - 1]
    always = [3932160001, top, rng.randint(top - 59998, top - 1)]
    for d in (huge + always if thorough else rng.sample(huge, 2) + always):
        scale = rng.choice([1, 2, 10])
        calls = ["S:" + fmt_point(point(rng, scale)), "H:%d" % d, "L:" + fmt_point(point(rng, scale)) + ":1000", "F"]
        yield ("build %d %d %s" % (scale, rng.choice([0, 1]), ";".join(calls)), "huge-hold")
    # (a line of d ms is halved into 2^ceil(log2(d / 60000)) segments: hours, not weeks, keep the model's list appends feasible)
    for d in ([28800001, 86400000, 120000001] if thorough else [28800001]):
        scale = rng.choice([1, 10])
        calls = ["L:" + fmt_point(point(rng, scale)) + ":%d" % d, "H:1000", "F"]
        yield ("build %d %d %s" % (scale, 0, ";".join(calls)), "huge-line")
    for i in range(1 if thorough else 0):
        scale = rng.choice([1, 10])
        calls = []
        for _ in range(6200):
            calls.append("L:" + fmt_point(point(rng, scale)) + ":" + str(rng.choice([20, 100, 1000])))
        calls.append("F")
        yield ("build %d %d %s" % (scale, 1, ";".join(calls)), "many-calls")


def compare(case, om, oi):
    tm, ti = om.split(" "), oi.split(" ")
    if len(tm) != len(ti):
        return "token count model=%d impl=%d: %s | %s" % (len(tm), len(ti), om[:160], oi[:160])
    w = case.split(" ")
    scale = int(w[1])
    calls = w[3].split(";")
    # requested points of the successful L/H calls since the last finish, in order
    pending = []
    last = [Fraction(0)] * 4
    ci = 0
    finished = False
    after_first = False
    nfin = 0
    cum = 0
    marks = []          # cumulative time of each pending probe
    zero_at = set()     # instants of zero-duration segments (not probed: the curve jumps there)
    probe_zero = set()
    for a, b in zip(tm, ti):
        if a.startswith("P:"):
            pa, pb = a.split(":"), b.split(":")
            if pa[1] != pb[1]:
                return "probe code model=%s impl=%s" % (a[:60], b[:60])
            if pa[1] == "0":
                at = marks.pop(0) if marks else None
                req = pending.pop(0) if pending else None
                if at in probe_zero:
                    continue
                d = _cmp_vec(pa[2], pb[2], parse_q(pa[3]))
                if d:
                    return "position vs exact model: " + d
                if req is not None and not after_first:
                    got = [frac_of_bits(int(x, 16)) for x in pb[2].split(",")]
                    slack = parse_q(pa[3])      # float timing/evaluation slack of the probe itself (Lipschitz x time rounding)
                    for k in range(3):
                        if abs(got[k] - req[k]) > scale + slack + abs(req[k]) / (1 << 20) + Fraction(1, 1000):
                            return "oracle: position %s more than one quantum (%d) from the requested point %s" % (float(got[k]), scale, float(req[k]))
                    dy = (got[3] - req[3]) % 360
                    if min(dy, 360 - dy) > Fraction(1, 10) + slack + Fraction(1, 1000):
                        return "oracle: yaw %s vs requested %s" % (float(got[3]), float(req[3]))
            continue
        if a != b:
            return "token model=%s impl=%s" % (a[:120], b[:120])
        if a.startswith("init") or a.startswith("buf:"):
            continue
        call = calls[ci]
        ci += 1
        if call == "F":
            nfin += 1
            after_first = nfin > 1
        f = call.split(":")
        ok = a.split(":")[1] == "0"
        if f[0] == "S" and ok:
            last = [frac_of_bits(int(x, 16)) for x in f[1:5]]
        elif f[0] == "L" and ok:
            last = [frac_of_bits(int(x, 16)) for x in f[1:5]]
            # zero-duration calls are not probed at their own instant
            cum += int(f[5])
            if int(f[5]) == 0 and ok:
                zero_at.add(cum)
            marks.append(cum)
            pending.append(list(last) if int(f[5]) > 0 else None)
        elif f[0] == "H" and ok:
            cum += int(f[1])
            marks.append(cum)
            pending.append(list(last) if int(f[1]) > 0 else None)
        elif f[0] == "F":
            # the probes of this trajectory follow.  The builder is documented to be "reset to an
            # uninitialized state" by the hand-over: calls after it are compared with the model only.
            finished = True
            cum = 0
            probe_zero = set(zero_at)
            zero_at = set()
    return None


def nontrivial(case, om, oi):
    return " L:0:" in om and " F:0:" in om


def outcome(case, om, oi):
    return "ok" if om.startswith("init:0") else om.split(" ")[0]
