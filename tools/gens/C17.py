"""C17: allocation discipline.  A case is a scenario (a sequence of create /
load / mutate / clear / destroy calls on numbered slots, ending with 'destroy
everything') together with a failure index k: the k-th C allocation request
(calloc / malloc / realloc) of the scenario fails (k = 0: none).  Both sides
print the result code of every call, the allocation event trace with logical
block identifiers and sizes, the number of blocks still live at the end and
the number of illegal free / realloc events; they must agree exactly."""
import re
from .common import hexs, fhex, f32_bits, bits_f32
from . import skyb, trajgen, yawgen, lightgen, filegen
from .C11 import rand_plan, encode as rth_encode

RULE = ("scenarios of 1..14 calls on 3..6 slots over: byte buffers (init / view / from-bytes / resize / append / extend / clear / "
        "prune), trajectories, light programs, yaw controls and RTH plans (empty / view of caller memory / ownership of a caller "
        "block / from a show file through a descriptor or from memory; valid files, truncated files, bodies cut short, blocks "
        "shorter than their header, empty light programs), clear, destroy in any order, trajectory builders (start / line incl. "
        "unrepresentable points and durations above the 60 s split / hold / finish into a trajectory), RTH entry conversion "
        "(all actions, failing conversions at every stage), light players, sb_poly_solve with a null root array; each scenario "
        "with k = 0 and with every k up to the number of allocation requests it makes (plus a margin). Non-trivial = the "
        "scenario performs at least one allocation and, for k > 0, the injected failure actually fires.")
EXPLANATION = ("exact agreement of result codes, event trace (alloc id:size, realloc old>new:size, free, new/delete, failures), "
               "live blocks at the end and illegal events; plus the property's own expectations checked on the implementation "
               "output alone: no illegal free/realloc, nothing live at the end, a fired failure is answered by SB_ENOMEM")
ASSUMPTIONS = ["failures of C++ operator new are not injected (the property quantifies over C allocations)",
               "the allocator is observed by link-time interposition (-Wl,--wrap) in the harness binary; calloc(0) returns a block"]
TRUSTED = ["harness/alloc_wrap.c (logical block identifiers, failure injection)"]


def f32(x):
    return bits_f32(f32_bits(x))


def pt(rng, scale, bad=False):
    c = [f32(scale * rng.randint(-3000, 3000)) for _ in range(3)]
    if rng.random() < 0.3:
        c[rng.randrange(3)] = c[0]
    if bad:
        c[rng.randrange(3)] = f32(scale * rng.choice([40000, -50000]))
    return c + [f32(rng.choice([0.0, 90.0, 12.5]))]


def fpt(p):
    return ":".join(fhex(v) for v in p)


def small_file(rng, kinds=None):
    """a small show file and some broken variants of it"""
    blocks = []
    order = [1, 2, 5, 4, 3]
    rng.shuffle(order)
    for ty in order:
        if rng.random() < 0.25:
            continue
        if ty == 1:
            body = trajgen.encode(trajgen.rand_traj(rng, nseg=rng.choice([0, 1, 2]), maxdeg=rng.choice([1, 3])))
            if rng.random() < 0.1:
                body = body[:rng.randint(0, 8)]
            elif rng.random() < 0.2:
                body = body[:rng.randint(0, len(body))]      # cut anywhere, also inside a segment
        elif ty == 2:
            body = lightgen.rand_program(rng)[:rng.choice([0, 0, 3, 40])]
        elif ty == 5:
            body = yawgen.encode(yawgen.rand_yaw(rng, n=rng.choice([0, 1, 3])))
            if rng.random() < 0.1:
                body = body[:rng.randint(0, 2)]
            elif rng.random() < 0.25:
                body = body[:rng.randint(0, len(body))]      # cut anywhere, also inside a delta
        elif ty == 4:
            body = rth_encode(*rand_plan(rng, False))
            if rng.random() < 0.1:
                body = body[:rng.randint(0, 2)]
            elif rng.random() < 0.2:
                body = body[:rng.randint(0, len(body))]      # cut anywhere, also inside an entry
        else:
            body = [rng.randrange(32, 127) for _ in range(rng.randint(0, 6))]
        blocks.append((ty, bytes(b & 255 for b in body)))
    crc = rng.random() < 0.3
    d = skyb.container(blocks, version=2 if crc or rng.random() < 0.5 else 1, with_crc=crc)
    r = rng.random()
    if r < 0.25 and len(d) > 6:
        d = d[:rng.randint(5, len(d))]                    # truncated (possibly inside a body)
    elif r < 0.3:
        d = bytes(rng.randrange(256) for _ in range(rng.randint(0, 12)))
    elif r < 0.35 and len(d) > 8:
        i = rng.randrange(5, len(d))
        d = d[:i] + bytes([rng.choice([0, 1, 0xff])]) + d[i + 1:]
    return d


def rth_entry(rng):
    action = rng.choice([1, 2, 3, 3, 0, 7])
    def dur():
        return f32(rng.choice([0, 1, 5, 59, 61, 130.5, 0.001, 400, -1.0, 4294967.5]))
    def co():
        return f32(rng.choice([0, 100, -2500.5, 32767, 65535, 100000.5, 127 * 32767 + 200.0, 1e9]) if rng.random() < 0.5 else rng.uniform(-20000, 20000))
    neck = f32(rng.choice([0, 0, 500, -300])) if action == 3 else 0.0
    neckd = f32(rng.choice([0, 0, 2, 70])) if action == 3 else 0.0
    # (entry times and pre-delays whose sum does not fit 32-bit milliseconds, or is not a number: the conversion fails
    # at its very first step, before or after whatever it has allocated by then)
    time = rng.choice([0.0, 5.0, 100.0, -3.0, 65.0, 5e6, 4294967.5, float("nan"), float("inf")])
    pre = rng.choice([0.0, 2.0, 70.0, -1.0, 1000.0, 16777216.0, float("inf")])
    return "%s:%d:%s:%s:%s:%s:%s:%s:%s:%s:%s" % (
        fhex(time), action, fhex(dur()), fhex(co()), fhex(co()), fhex(co() if action == 3 else 0.0),
        fhex(pre), fhex(rng.choice([0.0, 3.0, 65.0, -2.0])), fhex(neck), fhex(neckd),
        fpt([co(), co(), abs(co()), f32(rng.choice([0, 90, 359.9]))]))


KINDS = "tlyr"


def scenario(rng):
    n = rng.randint(3, 6)
    ops = []
    kinds = [None] * n            # what the generator believes lives in each slot (only to aim the choices)
    ncaller = 0
    for _ in range(rng.randint(1, 14)):
        o = rng.randrange(n)
        r = rng.random()
        cur = kinds[o]
        if cur is None or r < 0.08:
            c = rng.random()
            if c < 0.2:
                k = rng.choice(["bi", "bi", "bv", "bb"])
                if k == "bi":
                    ops.append("bi:%d:%d" % (o, rng.choice([0, 0, 1, 5, 9, 64])))
                elif k == "bv":
                    ops.append("bv:%d:%d:%d" % (o, ncaller, rng.choice([0, 1, 4, 16])))
                    ncaller += 1
                else:
                    ops.append("bb:%d:%d" % (o, rng.choice([0, 1, 7, 32])))
                kinds[o] = "b"
            elif c < 0.3:
                k = rng.choice(KINDS)
                ops.append("em:%s:%d" % (k, o))
                kinds[o] = k
            elif c < 0.42:
                k = rng.choice(KINDS)
                if k == "t":
                    body = trajgen.encode(trajgen.rand_traj(rng, nseg=rng.choice([0, 1, 2]), maxdeg=3))
                elif k == "l":
                    body = lightgen.rand_program(rng)[:rng.choice([0, 5, 30])]
                elif k == "y":
                    body = yawgen.encode(yawgen.rand_yaw(rng, n=rng.choice([0, 2])))
                else:
                    body = rth_encode(*rand_plan(rng, False))
                if rng.random() < 0.2:
                    body = body[:rng.choice([0, 1, 2, 3, 8, 9])]
                elif rng.random() < 0.2:
                    body = body[:rng.randint(0, len(body))]
                if k == "t" and rng.random() < 0.4:
                    ops.append("tb:%d:%s" % (o, hexs(bytes(b & 255 for b in body))))
                else:
                    ops.append("fb:%s:%d:%d:%s" % (k, o, ncaller, hexs(bytes(b & 255 for b in body))))
                    ncaller += 1
                kinds[o] = k
            elif c < 0.7:
                k = rng.choice(KINDS)
                d = small_file(rng)
                ops.append("ff:%s:%d:%s:%d:%s" % (k, o, rng.choice("mf"), ncaller, hexs(d)))
                ncaller += 1
                kinds[o] = k
            elif c < 0.82:
                ops.append("Bi:%d:%d" % (o, rng.choice([1, 1, 2, 10, 127, 0, 128])))
                kinds[o] = "B"
            elif c < 0.92:
                ops.append("rt:%d:%s" % (o, rth_entry(rng)))
                kinds[o] = "t"
            elif c < 0.97:
                ls = [i for i in range(n) if kinds[i] == "l"]
                ops.append("pi:%d:%d" % (o, rng.choice(ls) if ls and rng.random() < 0.9 else rng.randrange(n)))
                kinds[o] = "p"
            else:
                ops.append("ps:%d" % rng.choice([0, 1, 2, 3, 4, 5, 8]))
        elif cur == "b":
            k = rng.choice(["br", "ba", "ba", "be", "bc", "bp", "de"])
            if k in ("br", "ba", "be"):
                ops.append("%s:%d:%d" % (k, o, rng.choice([0, 1, 2, 3, 7, 8, 9, 17, 40, 100])))
            else:
                ops.append("%s:%d" % (k, o))
                if k == "de":
                    kinds[o] = None
        elif cur == "B":
            c = rng.random()
            scale = 1
            if c < 0.15:
                ops.append("Bs:%d:%s" % (o, fpt(pt(rng, scale, bad=rng.random() < 0.2))))
            elif c < 0.55:
                ops.append("Bl:%d:%s:%d" % (o, fpt(pt(rng, scale, bad=rng.random() < 0.15)),
                                            rng.choice([0, 1, 1000, 59999, 60000, 60001, 150000, 500000])))
            elif c < 0.75:
                ops.append("Bh:%d:%d" % (o, rng.choice([0, 1, 60000, 60001, 130000, 700000])))
            elif c < 0.92:
                t = rng.randrange(n)
                ops.append("Bf:%d:%d" % (o, t))
                if kinds[t] is None:
                    kinds[t] = "t"
            else:
                ops.append("de:%d" % o)
                kinds[o] = None
        else:
            c = rng.random()
            if c < 0.3 and cur in "tl":
                ops.append("cl:%d" % o)
            elif c < 0.75:
                ops.append("de:%d" % o)
                kinds[o] = None
            else:
                ops.append("cl:%d" % o)
    return n, ops


def handmade():
    """scenarios aimed at each failure path (kept first)"""
    P = "3f800000:00000000:00000000:00000000"
    Q = "40000000:40400000:00000000:42b40000"
    traj = "01" + "0000" * 4 + "10e803" + "6400"
    out = [
        (3, ["bi:0:0", "ba:0:5", "ba:0:5", "bp:0", "de:0"]),
        (3, ["bv:0:0:4", "ba:0:3", "br:0:2", "br:0:9", "bc:0", "bp:0", "be:0:1"]),
        (3, ["bb:0:0", "bb:1:7", "ba:1:20", "bp:1"]),
        (4, ["Bi:0:1", "Bs:0:" + P, "Bl:0:" + Q + ":1000", "Bh:0:130000", "Bl:0:" + P + ":500000", "Bf:0:1", "Bl:0:" + Q + ":10", "Bf:0:2"]),
        (4, ["Bi:0:1", "Bl:0:47c35000:00000000:00000000:00000000:10", "Bf:0:1", "cl:1", "de:1"]),
        (4, ["em:l:0", "pi:1:0", "pi:2:0", "de:1", "cl:0", "de:0"]),
        (3, ["tb:0:" + traj, "cl:0", "tb:1:0100", "fb:t:2:0:" + traj, "cl:2"]),
        (3, ["ps:0", "ps:1", "ps:2", "ps:3", "ps:4", "ps:5", "ps:8"]),
        (3, ["em:t:0", "em:l:1", "em:y:2", "cl:0", "cl:1"]),
        (3, ["em:r:0", "fb:r:1:0:0a0000", "fb:r:2:1:0a00"]),
    ]
    # files: a valid one, a body cut short, a block shorter than its header, an empty light program
    f_ok = skyb.container([(1, bytes.fromhex(traj)), (2, bytes([4, 255, 0, 0, 50, 0])), (5, bytes([0, 0, 0, 0x10, 0x27, 100, 0])), (4, bytes([10, 0, 0]))])
    f_cut = f_ok[:12]
    f_short = skyb.container([(1, bytes(5)), (5, bytes(2)), (4, bytes(1)), (2, b"")])
    for f in (f_ok, f_cut, f_short):
        for r in "fm":
            ops = []
            for i, k in enumerate(KINDS):
                ops.append("ff:%s:%d:%s:%d:%s" % (k, i, r, i, hexs(f)))
            ops += ["cl:0", "cl:1", "pi:4:1", "de:2"]
            out.append((5, ops))
    e_ok = "00000000:3:41200000:42c80000:43480000:447a0000:40000000:40400000:43fa0000:40000000:00000000:00000000:42c80000:00000000"
    e_bad = "00000000:3:bf800000:42c80000:43480000:447a0000:40000000:40400000:43fa0000:40000000:00000000:00000000:42c80000:00000000"
    e_unk = "00000000:7:41200000:42c80000:43480000:447a0000:00000000:00000000:00000000:00000000:00000000:00000000:42c80000:00000000"
    e_big = "00000000:2:41200000:4e6e6b28:43480000:447a0000:00000000:00000000:00000000:00000000:00000000:00000000:42c80000:00000000"
    for e in (e_ok, e_bad, e_unk, e_big):
        out.append((2, ["rt:0:" + e, "cl:0"]))
    return out


def cases(rng, tier):
    thorough = tier == "thorough"
    scen = [(n, ops, "handmade") for n, ops in handmade()]
    for _ in range(4000 if thorough else 450):
        n, ops = scenario(rng)
        scen.append((n, ops, "random"))
    for n, ops, klass in scen:
        # every k up to a bound on the number of allocation requests of the scenario (requests beyond the
        # real count leave the run failure-free: counted as trivial)
        kmax = min(60 if thorough else 28, 3 * len(ops) + 4)
        for k in range(0, kmax + 1):
            yield ("alloc %d %d %s" % (n, k, ";".join(ops)), klass + ("-nofail" if k == 0 else "-fail"))


def _fields(o):
    m = re.match(r"rcs=(\S*) trace=(\S*) live=(\d+) bad=(-?\d+)$", o)
    return m.groups() if m else None


def compare(case, om, oi):
    if om == oi:
        return None
    fm, fi = _fields(om), _fields(oi)
    if not fm or not fi:
        return "unparsable: model=%s impl=%s" % (om[:160], oi[:160])
    names = ["result codes", "event trace", "live blocks at the end", "illegal events"]
    for nm, a, b in zip(names, fm, fi):
        if a != b:
            return "%s differ: model=%s impl=%s" % (nm, a[:200], b[:200])
    return "model=%s impl=%s" % (om[:200], oi[:200])


def oracle(case, klass, om, oi):
    """what the property demands of the implementation, independent of the model's run"""
    f = _fields(oi)
    if not f:
        return None
    rcs, trace, live, bad = f
    if bad != "0":
        return "oracle: %s illegal free/realloc event(s) (double free, or caller memory freed/resized): %s" % (bad, trace[:200])
    if live != "0":
        return "oracle: %s block(s) still allocated after everything was destroyed: %s" % (live, trace[:200])
    fired = [e for e in trace.split(",") if e.startswith("af:") or e.startswith("rf")]
    if fired and "1" not in rcs.split(","):
        return "oracle: an allocation failed (%s) but no call reported SB_ENOMEM: %s" % (fired[0], rcs)
    return None


def property_holds(case, klass, om, oi):
    """the property's own demands on this case: nothing freed twice / no caller memory touched, nothing left allocated, a
    failed allocation reported as SB_ENOMEM; and the same result codes as the model (those are behaviour, not allocation
    pattern).  A different but clean allocation pattern is then a broken correspondence, not a failing input."""
    fm, fi = _fields(om), _fields(oi)
    if not fm or not fi:
        return False
    return fm[0] == fi[0] and oracle(case, klass, om, oi) is None


def nontrivial(case, om, oi):
    f = _fields(om)
    if not f or f[1] == "-":
        return False
    k = int(case.split(" ")[2])
    if k == 0:
        return True
    return "af:" in f[1] or ",rf" in f[1] or f[1].startswith("rf")


def outcome(case, om, oi):
    f = _fields(om)
    if not f:
        return "unparsable"
    k = int(case.split(" ")[2])
    if k == 0:
        return "no-failure"
    fired = "af:" in f[1] or "rf" in f[1]
    return "failure-fired" if fired else "failure-index-beyond-scenario"
