"""C18: polynomial toolkit.  Construction and calculus laws against the exact
rational model within float32 evaluation bounds; root finding (degree <= 3)
against certified root boxes (interval exclusion + sign change)."""
import math
from fractions import Fraction
from .common import fhex, frac_of_bits, parse_q, f32_bits, bits_f32

RULE = ("control-point / coefficient vectors of length 0..8 with magnitudes up to 1e6 (and small ones), evaluation points in [-2,2], "
        "durations and stretch factors with 0.05 <= |k| <= 20; deriv/scale/stretch/add-constant on random vectors; solve / touches / "
        "extrema for degree <= 3 with a well-conditioned leading coefficient (>= 5% of the largest lower-order one), right-hand "
        "sides in and around the range on [0,1], roots not within 2e-3 of each other or (touches) of the interval ends; classes aimed at the closed forms (a non-leading "
        "coefficient exactly zero, roots exactly at 0 and 1, double roots) and at the monotonicity shortcuts (cubics whose slope reverses inside [0,1] with the same sign at both ends); a class of "
        "degree > 3 extrema (recorded finding D13). Non-trivial = vectors of length >= 2.")
EXPLANATION = ("coefficients: |impl - exact| <= (2j+8) 2^-23 M_j with M_j the magnitude sum of the terms of coefficient j; values: "
               "(2n+8) 2^-23 sum M_j |u|^j; roots: the number of returned roots equals the number of certified sign-change boxes "
               "and each lies within the root tolerance (1e-5 linear, 2e-4 quadratic, 3e-3 cubic, relative to max(1,|root|)) of one")
ASSUMPTIONS = ["float32 evaluation bounds are assumed (standard Horner bounds), root tolerances calibrated on the stated domain",
               "root certificates: Proofs/RootCert_Proofs.v (interval exclusion sound, sign change implies a root)"]
EPS = Fraction(1, 1 << 23)


def f32(x):
    return bits_f32(f32_bits(x))


def rnd_val(rng, mag=None):
    mag = mag if mag is not None else rng.choice([1, 10, 1000, 1e6, 0.01])
    return f32(rng.uniform(-mag, mag))


def hexcsv(xs):
    return ",".join(fhex(x) for x in xs) if xs else "-"


def fr(x):
    return frac_of_bits(f32_bits(x))


def fact(n):
    return math.factorial(n)


def well_conditioned(cs):
    lead = abs(cs[-1])
    rest = max(abs(c) for c in cs[:-1]) if len(cs) > 1 else 0
    return lead != 0 and lead >= 0.05 * rest


def cases(rng, tier):
    n = 30000 if tier == "thorough" else 2500
    us = [f32(x) for x in (0.0, 1.0, 0.5, -2.0, 2.0, 0.25, -0.75, 1.5)]
    for i in range(n):
        k = rng.choice([0, 1, 2, 3, 4, 4, 5, 6, 7, 8, 8, 8])
        pts = [rnd_val(rng) for _ in range(k)]
        d = f32(rng.choice([1.0, 1.0, 2.0, 0.5, 10.0, 0.05, 20.0, -1.0, rng.uniform(0.05, 20)]))
        pu = [f32(rng.uniform(-2, 2)) for _ in range(3)] + us[:3]
        yield ("poly bezier %s %s %s" % (fhex(d), hexcsv(pts), hexcsv(pu)), "bezier%d" % min(k, 9))
        cs = [rnd_val(rng) for _ in range(rng.choice([0, 1, 2, 3, 4, 6, 8]))]
        yield ("poly eval %s %s" % (hexcsv(cs), hexcsv(pu)), "eval")
        yield ("poly deriv %s" % hexcsv(cs), "deriv")
        yield ("poly scale %s %s" % (hexcsv(cs), fhex(rnd_val(rng, 100))), "scale")
        kk = f32(rng.choice([1, -1]) * rng.uniform(0.05, 20))
        yield ("poly stretch %s %s" % (hexcsv(cs), fhex(kk)), "stretch")
        yield ("poly addc %s %s" % (hexcsv(cs), fhex(rnd_val(rng))), "addc")
    # --- the linear constructor's branch for a duration below FLT_EPSILON, the fixed-arity constructors (through
    # "alt=" of every bezier case with <= 4 points), the 4-D wrappers and the optional output arguments
    tiny = [0.0, -0.0, 1e-8, -1e-9, 1.1920929e-07, 1.1920928e-07, -1.1920929e-07, 1.2e-7, 5.9e-8]
    for i in range(n // 10):
        d = f32(rng.choice(tiny))
        pts = [rnd_val(rng), rnd_val(rng)]
        pu = [f32(rng.uniform(-2, 2)) for _ in range(3)] + us[:3]
        yield ("poly bezier %s %s %s" % (fhex(d), hexcsv(pts), hexcsv(pu)), "bezier-tiny-duration")
    for i in range(n // 5):
        cs4 = [[rnd_val(rng) for _ in range(rng.choice([0, 1, 2, 4, 8]))] for _ in range(4)]
        yield ("poly 4d %s %s %s %s %s %s" % (hexcsv(cs4[0]), hexcsv(cs4[1]), hexcsv(cs4[2]), hexcsv(cs4[3]), fhex(rnd_val(rng, 100)),
                                             fhex(f32(rng.uniform(-2, 2)))), "poly4d")
        cs = [rnd_val(rng, 10) for _ in range(rng.choice([0, 1, 2, 3, 4, 4, 5, 8]))]
        yield ("poly nullargs %s %s" % (hexcsv(cs), fhex(rnd_val(rng, 10))), "nullargs")
    yield ("poly extrema -", "extrema-empty")
    # --- roots
    for i in range(n // 4 if tier == "thorough" else n // 16):
        deg = rng.choice([0, 1, 1, 2, 2, 3, 3, 3])
        mag = rng.choice([1, 10, 1000])
        while True:
            cs = [rnd_val(rng, mag) for _ in range(deg + 1)]
            if deg == 0 or well_conditioned(cs):
                break
        # value range on [0,1] (rough) to place right-hand sides in and around it
        vals = [sum(c * (t / 8.0) ** j for j, c in enumerate(cs)) for t in range(9)]
        lo, hi = min(vals), max(vals)
        span = max(hi - lo, 1e-3 * mag)
        for y in (f32(rng.uniform(lo, hi)), f32(rng.uniform(lo - span, hi + span)), f32(cs[0]) if rng.random() < 0.2 else f32(rng.uniform(lo, hi))):
            yield ("poly solve %s %s" % (hexcsv(cs), fhex(y)), "solve%d" % deg)
            yield ("poly touches %s %s" % (hexcsv(cs), fhex(y)), "touches%d" % deg)
        yield ("poly extrema %s" % hexcsv(cs), "extrema%d" % deg)
    # aimed at the closed forms: a non-leading coefficient that is exactly zero (quadratic without linear term,
    # cubic without quadratic term, ...), roots exactly at 0 and 1, double roots
    for i in range(n // 8 if tier == "thorough" else n // 10):
        deg = rng.choice([2, 2, 2, 3, 3])
        mag = rng.choice([1, 10, 1000])
        kind = rng.choice(["zero-coeff", "zero-coeff", "zero-coeff", "end-roots", "double"])
        if kind == "zero-coeff":
            while True:
                cs = [rnd_val(rng, mag) for _ in range(deg + 1)]
                cs[rng.randrange(0, deg)] = 0.0
                if deg == 2 and cs[1] == 0.0 and rng.random() < 0.8:
                    # two distinct real roots +-sqrt(-c/a), placed in and around [0,1]
                    cs[0] = f32(-cs[2] * rng.choice([0.04, 0.25, 0.5, 0.81, 1.0, 2.25]))
                if well_conditioned(cs):
                    break
        elif kind == "end-roots":
            a = rnd_val(rng, mag) or 1.0
            r1 = rng.choice([0.0, 1.0])
            r2 = rng.choice([x for x in (0.0, 1.0, 0.5, 2.0, -1.0) if x != r1])      # distinct: a double root is ill-conditioned
            cs = [f32(a * r1 * r2), f32(-a * (r1 + r2)), f32(a)]        # a (x - r1)(x - r2)
        else:
            a = rnd_val(rng, mag) or 1.0
            r = rng.choice([0.25, 0.5, 0.75, 1.0])
            cs = [f32(a * r * r), f32(-2 * a * r), f32(a)]
        vals = [sum(c * (t / 8.0) ** j for j, c in enumerate(cs)) for t in range(9)]
        lo, hi = min(vals), max(vals)
        span = max(hi - lo, 1e-3 * mag)
        ys = [0.0, f32(rng.uniform(lo, hi)), f32(rng.uniform(lo - span, hi + span))]
        for y in ys:
            if kind == "double" and y == 0.0:
                continue        # a double root is ill-conditioned: outside the property's domain
            yield ("poly solve %s %s" % (hexcsv(cs), fhex(y)), "aimed-solve%d" % (len(cs) - 1))
            yield ("poly touches %s %s" % (hexcsv(cs), fhex(y)), "aimed-touches%d" % (len(cs) - 1))
        if kind != "double":
            yield ("poly extrema %s" % hexcsv(cs), "aimed-extrema%d" % (len(cs) - 1))
        if deg == 2:
            # the cubic whose derivative is this quadratic: extrema go through the quadratic solver
            cub = [rnd_val(rng, mag), cs[0], f32(cs[1] / 2), f32(cs[2] / 3)]
            if kind != "double":
                yield ("poly extrema %s" % hexcsv(cub), "aimed-extrema3")
    # aimed at the monotonicity shortcuts of touches / extrema: cubics whose slope has the same sign at both ends of [0,1]
    # and the opposite sign in between (Bezier control points up-down-up or down-up-down), right-hand sides taken in
    # the reversal, on both sides of p(0) and p(1)
    for i in range(n // 8 if tier == "thorough" else n // 8):
        mag = rng.choice([1, 10, 1000])
        sg = rng.choice([1, -1])
        p0 = rng.uniform(-mag, mag)
        a, b, c = (rng.uniform(0.2, 2.0) * mag for _ in range(3))
        p1 = p0 + sg * a
        p2 = p1 - sg * b
        p3 = p2 + sg * c
        cs = [f32(p0), f32(3 * (p1 - p0)), f32(3 * (p0 - 2 * p1 + p2)), f32(p3 - 3 * p2 + 3 * p1 - p0)]
        if not well_conditioned(cs):
            continue
        vals = [sum(cf * (t / 64.0) ** j for j, cf in enumerate(cs)) for t in range(65)]
        lo, hi = min(vals), max(vals)
        for y in (f32(rng.uniform(lo, hi)), f32(rng.uniform(lo, hi)), f32(rng.uniform(min(vals[0], vals[-1]), max(vals[0], vals[-1])))):
            yield ("poly touches %s %s" % (hexcsv(cs), fhex(y)), "aimed-touches-reversal")
            yield ("poly solve %s %s" % (hexcsv(cs), fhex(y)), "aimed-solve-reversal")
        yield ("poly extrema %s" % hexcsv(cs), "aimed-extrema-reversal")
    # polynomials that are merely small in scale (all coefficients around 1e-8 ... 1e-12): the roots and the shape are
    # those of the unit-scale polynomial; only an exactly vanishing leading coefficient lowers the degree
    for i in range(n // 4 if tier == "thorough" else n // 12):
        deg = rng.choice([1, 2, 2, 3, 3])
        while True:
            base = [rnd_val(rng, 1) for _ in range(deg + 1)]
            if well_conditioned(base):
                break
        sc = rng.choice([1e-8, 1e-9, 6.4e-8, 1e-12, 3e-11])
        cs = [f32(c * sc) for c in base]
        if not well_conditioned(cs) or any(c == 0.0 for c in cs[-1:]):
            continue
        vals = [sum(cf * (t / 8.0) ** j for j, cf in enumerate(cs)) for t in range(9)]
        lo, hi = min(vals), max(vals)
        for y in (f32(rng.uniform(lo, hi)), f32(rng.uniform(lo, hi))):
            yield ("poly solve %s %s" % (hexcsv(cs), fhex(y)), "tiny-scale-solve%d" % deg)
            yield ("poly touches %s %s" % (hexcsv(cs), fhex(y)), "tiny-scale-touches%d" % deg)
        yield ("poly extrema %s" % hexcsv(cs), "tiny-scale-extrema%d" % deg)
    for i in range(60):
        cs = [rnd_val(rng, 100) for _ in range(rng.choice([5, 6, 8]))]
        yield ("poly extrema %s" % hexcsv(cs), "extrema-high")
    # the closed forms for at most three significant coefficients against their binary32 model, bit for bit (every
    # operation involved, sqrtf included, is correctly rounded): random and aimed coefficient vectors, right-hand
    # sides in and around the range, leading coefficients that vanish or are denormal-small
    for i in range(n // 2):
        deg = rng.choice([0, 1, 1, 2, 2, 2, 2])
        mag = rng.choice([1, 10, 1000])
        cs = [rnd_val(rng, mag) for _ in range(deg + 1)]
        r = rng.random()
        if deg == 2 and r < 0.15:
            cs[1] = 0.0
        elif deg == 2 and r < 0.3:
            a = rnd_val(rng, mag) or 1.0
            rr = rng.choice([0.25, 0.5, 0.75, 1.0, 3.0])
            cs = [f32(a * rr * rr), f32(-2 * a * rr), f32(a)]           # double root (discriminant 0 or rounding noise)
        elif r < 0.36:
            cs.append(rng.choice([0.0, 1e-39, -1e-40]))                      # an insignificant (zero or denormal) leading coefficient
        elif deg == 2 and r < 0.45:
            cs[2] = f32(cs[2] * 1e-6)                                        # 4ac tiny next to b^2
        vals = [sum(c * (t / 8.0) ** j for j, c in enumerate(cs)) for t in range(9)]
        lo, hi = min(vals), max(vals)
        span = max(hi - lo, 1e-3 * mag)
        for y in (0.0, f32(rng.uniform(lo - span, hi + span)), f32(cs[0])):
            yield ("poly solve32 %s %s" % (hexcsv(cs), fhex(y)), "solve32-deg%d" % deg)
    # three real roots a few hundredths apart (more than four tolerances): a (x - r + s)(x - r)(x - r - s), y = 0 and
    # right-hand sides between the local extrema.  The discriminant of the depressed cubic is -s^6 / 27 whatever a is.
    yield ("poly solve 00000000,40495c40,4315d497,c43ec6cb 00000000", "clustered-roots")       # found by the thorough tier
    for i in range(n // 25):
        a = f32(rng.choice([1, -1]) * rng.uniform(0.5, 1000))
        r = rng.uniform(-0.5, 1.5)
        sp = rng.choice([0.045, 0.05, 0.06, 0.075, 0.09, 0.1, 0.12, 0.2])
        r1, r2, r3 = r - sp, r, r + sp * rng.uniform(1.0, 1.3)
        cs = [f32(-a * r1 * r2 * r3), f32(a * (r1 * r2 + r1 * r3 + r2 * r3)), f32(-a * (r1 + r2 + r3)), a]
        if not well_conditioned(cs):
            continue
        yield ("poly solve %s %s" % (hexcsv(cs), fhex(0.0)), "clustered-roots")
        yield ("poly touches %s %s" % (hexcsv(cs), fhex(0.0)), "clustered-roots-touches")
    # straight segments queried with exactly the values the library's own evaluation gives at the two ends of [0,1]
    # (slopes like 0.1, 0.7, 1.9: p(1) = fl(a + b) is not a + b, and (fl(a + b) - b) / a need not be <= 1 in binary32)
    for i in range(n // 4):
        mag = rng.choice([1, 10, 1000])
        a = f32(rng.choice([0.1, 0.2, 0.7, 1.4, 1.9, -0.1, -0.2, -0.7]) * rng.choice([1, 1, 3, 10])) if rng.random() < 0.5 else rnd_val(rng, mag)
        b = f32(rng.choice([1.0, 2.0, 0.3, -5.1])) if rng.random() < 0.5 else rnd_val(rng, mag)
        if a == 0.0:
            continue
        yield ("poly touchend %s" % hexcsv([b, a]), "linear-end-values")


def _vals(s):
    return [] if s == "-" else s.split(",")


def _close(m, i, tol):
    f = frac_of_bits(int(i, 16))
    return f is not None and abs(f - parse_q(m)) <= tol


def root_tol(deg, r):
    # (cubic: 1 % of the unit interval, the accuracy class of the closed form in binary32 - the thorough tier's 3e5
    # cases showed errors up to 4.1e-3 on the unchanged tree, a first calibration on 3e3 cases had settled on 3e-3)
    base = {0: Fraction(1, 100000), 1: Fraction(1, 100000), 2: Fraction(2, 10000), 3: Fraction(1, 100)}[min(deg, 3)]
    return base * max(1, abs(r))


def compare(case, om, oi):
    w = case.split(" ")
    k = w[1]
    if k == "bezier":
        d = fr(bits_f32(int(w[2], 16)))
        pts = [frac_of_bits(int(x, 16)) for x in _vals(w[3])][:8]
        us = [frac_of_bits(int(x, 16)) for x in _vals(w[4])]
        n = len(pts) - 1
        tm, ti = om.split(" "), oi.split(" ")
        cm, ci = _vals(tm[0][2:]), _vals(ti[0][2:])
        if len(cm) != len(ci):
            return "coefficient count model=%d impl=%d" % (len(cm), len(ci))
        if n >= 2:
            M = [sum(abs(pts[i]) / (fact(i) * fact(j - i)) for i in range(j + 1)) * Fraction(fact(n), fact(n - j)) / abs(d) ** j for j in range(n + 1)]
        elif n == 1 and abs(d) < Fraction(1, 1 << 23):
            M = [abs(pts[0]) + abs(pts[1]), Fraction(0)]
        elif n == 1:
            M = [abs(pts[0]), (abs(pts[0]) + abs(pts[1])) / abs(d)]
        else:
            M = [abs(p) for p in pts] or [Fraction(0)]
        for j, (a, b) in enumerate(zip(cm, ci)):
            if not _close(a, b, (2 * j + 8) * EPS * M[j] + Fraction(1, 10 ** 30)):
                return "bezier coefficient %d model=%s impl=%s" % (j, float(parse_q(a)), b)
        vm, vi = _vals(tm[1][2:]), _vals(ti[1][2:])
        for u, a, b in zip(us, vm, vi):
            tol = (2 * len(M) + 8) * EPS * sum(M[j] * abs(u) ** j for j in range(len(M))) + Fraction(1, 10 ** 30)
            if not _close(a, b, tol):
                return "bezier value at %s model=%s impl=%s" % (float(u), float(parse_q(a)), b)
        want_deg = max(len(cm) - 1, 0)
        if ti[2] != "deg=%d" % want_deg:
            return "degree model=%d impl=%s" % (want_deg, ti[2])
        if len(ti) > 3 and ti[3] != "alt=same":
            return "the fixed-arity constructor builds another polynomial than sb_poly_make_bezier: %s" % " ".join(ti[3:])[:200]
        return None
    if k in ("4d", "nullargs"):
        return None if om == oi else "model=%s impl=%s" % (om, oi[:200])
    if k == "eval":
        cs = [frac_of_bits(int(x, 16)) for x in _vals(w[2])]
        us = [frac_of_bits(int(x, 16)) for x in _vals(w[3])]
        vm = _vals(om[2:])
        ti = oi.split(" ")
        for label, vi in (("float", _vals(ti[0][2:])), ("double", _vals(ti[1][2:]))):
            for u, a, b in zip(us, vm, vi):
                tol = (2 * len(cs) + 4) * EPS * sum(abs(c) * abs(u) ** j for j, c in enumerate(cs)) + Fraction(1, 10 ** 30)
                if not _close(a, b, tol):
                    return "%s evaluation at %s model=%s impl=%s" % (label, float(u), float(parse_q(a)), b)
        return None
    if k in ("deriv", "scale", "stretch", "addc"):
        cm, ci = _vals(om[2:]), _vals(oi[2:])
        if len(cm) != len(ci):
            return "coefficient count model=%s impl=%s" % (om[:80], oi[:80])
        extra = Fraction(0)
        if k == "addc":
            extra = abs(frac_of_bits(int(w[3], 16))) * EPS
        for j, (a, b) in enumerate(zip(cm, ci)):
            ex = parse_q(a)
            if not _close(a, b, (2 * j + 6) * EPS * abs(ex) + extra * (1 if j == 0 else 0) + (abs(frac_of_bits(int(_vals(w[2])[0], 16))) * EPS if (k == "addc" and j == 0 and _vals(w[2])) else 0) + Fraction(1, 10 ** 35)):
                return "%s coefficient %d model=%s impl=%s" % (k, j, float(ex), b)
        return None
    if k == "solve":
        cs = [frac_of_bits(int(x, 16)) for x in _vals(w[2])]
        sig = len(cs)
        while sig > 1 and abs(cs[sig - 1]) < Fraction(1, 1 << 126):
            sig -= 1
        deg = sig - 1
        if deg > 3:
            return None
        boxes = [] if om == "roots=-" else [b.split(":") for b in om[6:].split(";")]
        if not oi.startswith("solve=0:"):
            return "solve failed: %s" % oi
        f = oi.split(":")
        nr = int(f[1])
        roots = sorted(frac_of_bits(int(x, 16)) for x in f[2:2 + nr] if frac_of_bits(int(x, 16)) is not None)
        if deg <= 0:
            # constant: one 'root' at 0 when it equals the right-hand side, none otherwise
            y = frac_of_bits(int(w[3], 16))
            want = 1 if (cs and abs(cs[0] - y) < Fraction(1, 1 << 126)) or (not cs) else 0
            if not cs:
                return None if nr == 0 else "empty polynomial: impl returned %d roots" % nr
            return None if nr == want else "constant polynomial: impl returned %d roots, expected %d" % (nr, want)
        if any(b[2] == "0" for b in boxes):
            return None          # a box without sign change: tangential / ill-conditioned, outside the domain
        cert = [(parse_q(b[0]), parse_q(b[1])) for b in boxes]
        # roots closer than the tolerance to each other are outside the domain
        for (a1, b1), (a2, b2) in zip(cert, cert[1:]):
            if a2 - b1 < 4 * root_tol(deg, a2):
                return None
        if len(roots) != nr:
            return "non-finite root returned: %s" % oi
        if nr != len(cert):
            return "root count: impl %d, certified %d (model %s, impl %s)" % (nr, len(cert), om[:120], oi[:120])
        for r, (a, b) in zip(roots, cert):
            t = root_tol(deg, r)
            if not (a - t <= r <= b + t):
                return "root %s not within %s of the certified box [%s, %s]" % (float(r), float(t), float(a), float(b))
        return None
    if k == "touches":
        cs = [frac_of_bits(int(x, 16)) for x in _vals(w[2])]
        deg = len(cs) - 1
        y = frac_of_bits(int(w[3], 16))

        def near_solution(r):
            """r in [0,1] (up to the root tolerance) and p(r) = y up to the tolerance times the slope bound: 'a solution that lies in [0,1]'"""
            t = root_tol(deg, r)
            if r is None or not (-t <= r <= 1 + t):
                return False
            val = sum(c * r ** j for j, c in enumerate(cs))
            slope = sum(j * abs(c) for j, c in enumerate(cs)) * max(1, abs(r)) ** max(deg - 1, 0)
            mag = sum(abs(c) * abs(r) ** j for j, c in enumerate(cs)) + abs(y)
            return abs(val - y) <= t * slope + 16 * EPS * mag
        if om == "none":
            if oi != "touches=0":
                # a root reported where the exact polynomial has none in [0,1]: fine when it is a solution within the
                # tolerance (a root just outside an end of the interval, or a tangency the exact coefficients miss by a hair)
                r = frac_of_bits(int(oi.split(":")[1], 16))
                if near_solution(r):
                    return None
                return "touches: impl reports a root at %s, certified none in [0,1]" % (None if r is None else float(r))
            return None
        f = om.split(":")
        a, b, sc = parse_q(f[1]), parse_q(f[2]), f[3]
        if sc == "0":
            return None
        t = root_tol(deg, a)
        if oi == "touches=0":
            if a < 2 * t or b > 1 - 2 * t:
                return None      # within tolerance of an end of [0,1]: outside the stated domain (see finding D16)
            return "touches: impl reports no root, certified root in [%s, %s]" % (float(a), float(b))
        r = frac_of_bits(int(oi.split(":")[1], 16))
        if r is None or not (a - t <= r <= b + t):
            # C18 asks for 'a solution that lies in [0,1]', not for the leftmost one (that is C13's business)
            if near_solution(r):
                return None
            return "touches: impl root %s is not a solution in [0,1]; certified leftmost root in [%s, %s]" % (None if r is None else float(r), float(a), float(b))
        return None
    if k == "solve32":
        if om == "cubic":
            return None
        fi = oi.split(":")
        fm = om[8:].split(":")
        if fi[0] != "solve=0":
            return "solve failed: %s" % oi
        ri = [frac_of_bits(int(x, 16)) for x in fi[2:]]
        rm = [parse_q(x) for x in fm[1:]]
        if int(fi[1]) != int(fm[0]) or ri != rm:
            return "binary32 model of the closed forms: roots %s, implementation %s" % ([float(x) for x in rm], [None if x is None else float(x) for x in ri])
        return None
    if k == "touchend":
        f = oi.split(" ")
        fm = om.split(" ")
        if f[0] == fm[0] == "te=1:1":
            # the binary32 model evaluates the ends to the very same floats
            for ym, yi in zip(fm[1][2:].split(":"), f[1][2:].split(":")):
                if parse_q(ym) != frac_of_bits(int(yi, 16)):
                    return "end value of a straight segment: model %s, sb_poly_eval %s" % (float(parse_q(ym)), yi)
        elif f[0] == "te=1:1":
            return "model (binary32) of the linear touch test answers %s, implementation %s" % (fm[0], f[0])
        if f[0] != "te=1:1":
            cs = [frac_of_bits(int(x, 16)) for x in _vals(w[2])]
            ys = f[1][2:].split(":")
            which = 0 if f[0].startswith("te=0") else 1
            return "p(t) = %s + %s t evaluates (sb_poly_eval) to exactly %s at t = %d, but sb_poly_touches reports no solution in [0,1]" % (
                float(cs[0]), float(cs[1]), float(frac_of_bits(int(ys[which], 16))), which)
        # the parameter returned is (y - b) / a computed in binary32: within the rounding of y - b (an ulp of the larger
        # of |b|, |y|) divided by |a| of the end it belongs to - a flat slope makes that wide (the thorough tier drew
        # b = -5.1, a = -1.3e-4: parameter 1.001)
        cs = [frac_of_bits(int(x, 16)) for x in _vals(w[2])]
        for end, r in zip((0, 1), f[2][2:].split(":")):
            rv = frac_of_bits(int(r, 16))
            tol = Fraction(1, 10 ** 6) + (abs(cs[0]) + abs(cs[1])) / abs(cs[1]) / (1 << 21)
            if rv is None or abs(rv - end) > tol:
                return "touches at the value taken at u = %d returned the parameter %s (allowed %s)" % (end, None if rv is None else float(rv), float(tol))
        return None
    if k == "extrema":
        cs = [frac_of_bits(int(x, 16)) for x in _vals(w[2])]
        sig = len(cs)
        while sig > 2 and abs(cs[sig - 1]) < Fraction(1, 1 << 126):
            sig -= 1
        f = oi.split(":")
        mn, mx = frac_of_bits(int(f[1], 16)), frac_of_bits(int(f[2], 16))
        if sig > 4:
            return "extrema of a degree > 3 polynomial are not computed (result left unset)" if (mn is None or mx is None) else None
        tm = om.split(" ")
        mnl, mnu = [parse_q(x) for x in tm[0][4:].split(":")]
        mxl, mxu = [parse_q(x) for x in tm[1][4:].split(":")]
        if not cs:
            return None if (mn == 0 and mx == 0) else "extrema of the empty polynomial: %s" % oi
        mag = sum(abs(c) for c in cs)
        tol = 40 * EPS * mag + Fraction(3, 1000) * mag * (1 if sig == 4 else 0) * Fraction(1, 100)
        if mn is None or mx is None:
            return "extrema not finite: %s" % oi
        if not (mnl - tol <= mn <= mnu + tol):
            return "minimum impl=%s certified [%s, %s]" % (float(mn), float(mnl), float(mnu))
        if not (mxl - tol <= mx <= mxu + tol):
            return "maximum impl=%s certified [%s, %s]" % (float(mx), float(mxl), float(mxu))
        return None
    return "model=%s impl=%s" % (om[:100], oi[:100])


def _cubic_delta(case):
    """the discriminant quantity q^2/4 + p^3/27 of the depressed cubic, in exact arithmetic"""
    w = case.split(" ")
    cs = [frac_of_bits(int(x, 16)) for x in _vals(w[2])]
    y = frac_of_bits(int(w[3], 16))
    if len(cs) != 4 or y is None or any(c is None for c in cs) or cs[3] == 0:
        return None
    d, c, b, a = cs[0] - y, cs[1], cs[2], cs[3]
    p = (3 * a * c - b * b) / (3 * a * a)
    q = (2 * b ** 3 - 9 * a * b * c + 27 * a * a * d) / (27 * a ** 3)
    return q * q / 4 + p ** 3 / 27


def finding_key(case, om, oi, d):
    if d.startswith("extrema of a degree > 3"):
        return "D13 extrema-degree>3"
    if (case.startswith("poly solve ") and (d.startswith("root count: impl 2, certified 3") or d.startswith("root count: impl 1, certified 3"))) \
            or (case.startswith("poly touches ") and d.startswith("touches: impl ")):
        # three distinct real roots reported as a double root: the closed form's test |delta| < 1e-8 is absolute
        # (sb_poly_touches goes through the same solver)
        dl = _cubic_delta(case)
        if dl is not None and dl < 0 and abs(dl) < Fraction(2, 10 ** 8):
            return "D24 cubic-discriminant-absolute-threshold"
    return d


def nontrivial(case, om, oi):
    w = case.split(" ")
    return len(_vals(w[3] if w[1] == "bezier" else w[2])) >= 2


def outcome(case, om, oi):
    return case.split(" ")[1]
