"""C19: binary codecs (parsing.c) and RGB565 (colors.c): exact comparison."""
from .common import hexs, exact_compare

RULE = ("16-bit: every value written then parsed (unsigned and signed) at a random offset of a random buffer; "
        "32-bit: bit-boundary patterns +-1 and random values; both widths also at offsets around 2^8, 2^16 and 2^17 of long buffers; varuint: every byte string of length <= 2 (quick) / <= 3 "
        "(thorough) and strings of length <= 7 over the boundary alphabet {00,01,0f,10,7f,80,81,8f,90,ff}, each at every "
        "start offset and several stated lengths; RGB565: all 65536 codes, colours on a grid (quick) / all 2^24 (thorough). "
        "A case is non-trivial unless the model answers 'oob' (read outside the supplied bytes); distinct = distinct case line.")
EXPLANATION = "model (Coq, extracted) and implementation must print identical lines; vuspec lines carry the declarative varuint specification"
ASSUMPTIONS = ["the harness places the bytes against a PROT_NONE page, so a read at or beyond the stated length faults"]
ALPHA = [0x00, 0x01, 0x0f, 0x10, 0x7f, 0x80, 0x81, 0x8f, 0x90, 0xff]


def cases(rng, tier):
    thorough = tier == "thorough"
    # --- fixed-width: write then parse
    vals16 = range(0, 65536) if thorough else list(range(0, 65536, 1)) 
    for v in vals16:
        n = rng.randint(2, 6)
        buf = [rng.randrange(256) for _ in range(n)]
        off = rng.randint(0, n - 2)
        yield ("w16 %s %d %d" % (hexs(buf), off, v), "w16")
        sv = v - 65536 if v >= 32768 else v
        if sv < 0:
            yield ("w16 %s %d %d" % (hexs(buf), off, sv), "w16s")
        b2 = list(buf)
        b2[off] = v & 255
        b2[off + 1] = v >> 8
        yield ("u16 %s %d" % (hexs(b2), off), "u16")
        yield ("i16 %s %d" % (hexs(b2), off), "i16")
    v32 = set()
    for k in range(33):
        for d in (-1, 0, 1):
            x = (1 << k) + d
            if 0 <= x < (1 << 32):
                v32.add(x)
    for _ in range(200000 if thorough else 20000):
        v32.add(rng.getrandbits(32))
    for v in sorted(v32):
        n = rng.randint(4, 9)
        buf = [rng.randrange(256) for _ in range(n)]
        off = rng.randint(0, n - 4)
        yield ("w32 %s %d %d" % (hexs(buf), off, v), "w32")
        sv = v - (1 << 32) if v >= (1 << 31) else v
        if sv < 0:
            yield ("w32 %s %d %d" % (hexs(buf), off, sv), "w32s")
        b2 = list(buf)
        for i in range(4):
            b2[off + i] = (v >> (8 * i)) & 255
        yield ("u32 %s %d" % (hexs(b2), off), "u32")
        yield ("i32 %s %d" % (hexs(b2), off), "i32")
    # --- fixed-width codecs at large offsets (beyond 8-, 16- and 17-bit offsets): the offset is a size_t
    for off in [254, 255, 256, 257, 65533, 65534, 65535, 65536, 65537, 70001, 131071, 131072, 131073] + ([rng.randint(258, 200000) for _ in range(40)] if thorough else []):
        n = off + rng.randint(4, 9)
        buf = [rng.randrange(256) for _ in range(n)]
        v16, v32x = rng.getrandbits(16) | 0x8001, rng.getrandbits(32) | 0x80008001
        yield ("w16 %s %d %d" % (hexs(buf), off, v16), "w16-long")
        yield ("w32 %s %d %d" % (hexs(buf), off, v32x), "w32-long")
        yield ("w32 %s %d %d" % (hexs(buf), off, v32x - (1 << 32)), "w32s-long")
        for op in ("u16", "i16", "u32", "i32"):
            yield ("%s %s %d" % (op, hexs(buf), off), op + "-long")
    # --- varuint
    def vu(bs, klass):
        L = len(bs)
        for off in range(0, L + 1):
            for n in sorted(set([L, max(L - 1, 0), off, min(off + 1, L)])):
                yield ("vu %s %d %d" % (hexs(bs), n, off), klass)
                yield ("vuspec %s %d %d" % (hexs(bs), n, off), klass + "-spec")
    for L in range(0, 3):
        for code in range(256 ** L):
            bs = [(code >> (8 * i)) & 255 for i in range(L)]
            yield from vu(bs, "vu-all%d" % L)
    if thorough:
        for code in range(0, 256 ** 3):
            bs = [(code >> (8 * i)) & 255 for i in range(3)]
            if rng.random() < 0.25:
                yield ("vu %s 3 0" % hexs(bs), "vu-all3")
    for L in range(3, 8):
        total = len(ALPHA) ** L
        want = total if (thorough and L <= 5) else min(total, 6000 if not thorough else 60000)
        if want == total:
            idxs = range(total)
        else:
            idxs = [rng.randrange(total) for _ in range(want)]
        for code in idxs:
            bs = []
            c = code
            for _ in range(L):
                bs.append(ALPHA[c % len(ALPHA)])
                c //= len(ALPHA)
            if want == total or L > 5:
                off = rng.randint(0, 1)
                yield ("vu %s %d %d" % (hexs(bs), L, off), "vu-alpha%d" % L)
                yield ("vuspec %s %d %d" % (hexs(bs), L, off), "vu-alpha%d-spec" % L)
            else:
                yield from vu(bs, "vu-alpha%d" % L)
    # --- every fifth byte behind four full continuation bytes (the bits that do not fit in 32: any of them is overflow),
    # and every sixth
    for head in ([0x80] * 4, [0xff] * 4, [0x81, 0x80, 0x80, 0x80], [0xff, 0xff, 0xff, 0x8f]):
        for x in range(256):
            for tail in ([], [0x00], [0x05], [0x80, 0x01]):
                bs = head + [x] + tail
                yield ("vu %s %d 0" % (hexs(bs), len(bs)), "vu-fifth-byte")
                yield ("vuspec %s %d 0" % (hexs(bs), len(bs)), "vu-fifth-byte-spec")
    # --- varuints inside long buffers: the decoder's bookkeeping (bytes left, bit budget) at distances from the end
    # of the buffer around multiples of 256 and 65536, and at large offsets
    for rep in range(4000 if thorough else 400):
        base = rng.choice([256, 256, 512, 768, 1024, 4096, 65536])
        dist = base + rng.choice([-2, -1, 0, 0, 1, 2, 3, 4, 5, 6]) if rng.random() < 0.8 else rng.randint(200, 70000)
        lead = rng.choice([0, 1, 5, rng.randint(0, 300)])
        L = lead + dist
        bs = [rng.choice(ALPHA) if rng.random() < 0.5 else rng.randrange(256) for _ in range(L)]
        # a well-formed varuint of 1..6 bytes at the probed offset (continuation bytes then a terminator)
        k = rng.choice([1, 1, 2, 3, 4, 5, 6])
        for j in range(k):
            if lead + j < L:
                bs[lead + j] = (rng.randrange(128) | 0x80) if j < k - 1 else rng.randrange(128)
        yield ("vu %s %d %d" % (hexs(bs), L, lead), "vu-long")
        yield ("vuspec %s %d %d" % (hexs(bs), L, lead), "vu-long-spec")
    # --- RGB565
    for c in range(65536):
        yield ("rgbdec %d" % c, "rgbdec")
    if thorough:
        step = 1
        for r in range(0, 256, step):
            for g in range(0, 256, step):
                for b in range(0, 256, 5):
                    yield ("rgbenc %d %d %d" % (r, g, (b + r + g) % 256), "rgbenc")
    else:
        for r in list(range(0, 256, 7)) + [255]:
            for g in list(range(0, 256, 5)) + [255]:
                for b in list(range(0, 256, 11)) + [255]:
                    yield ("rgbenc %d %d %d" % (r, g, b), "rgbenc")


def compare(case, om, oi):
    return exact_compare(case, om, oi)


def nontrivial(case, om, oi):
    return not om.startswith("oob")
