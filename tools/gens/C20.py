"""C20: supporting utilities.  binary32 operations are modelled bit-exactly
(exact operation + rounding), so results are compared exactly; buffer and
colour parts are integer-exact."""
import math
from fractions import Fraction
from .common import hexs, fhex, frac_of_bits, parse_q, f32_bits, bits_f32

RULE = ("float primitives (+,-,*,/,sqrt) on random and boundary binary32 values (the rounding model itself); travel time on a "
        "grid incl. distance = speed^2/acceleration, zero, negative, infinite and NaN arguments; scale update at k*32767 and "
        "k*32767+1 for k = 1..128 and random points; seconds -> milliseconds around 4294967 s, negative, NaN, infinite; "
        "interval expansion by negative amounts; colour interpolation on all channel pairs of a grid x 64 ratios; RGBW "
        "conversions on a colour grid; buffer operation sequences over small sizes and over sizes around 2^8 and 2^16 for owned and view buffers. "
        "Non-trivial = every case whose model result is not an argument error.")
EXPLANATION = "exact comparison: model value (rational) = value of the implementation's binary32 bit pattern; discrete results identical"
ASSUMPTIONS = ["x86-64 SSE binary32 arithmetic without contraction (-ffp-contract=off), correctly rounded sqrtf",
               "results in the binary32 normal range (no subnormal/overflow cases generated for the rounding model)"]


def f32(x):
    return bits_f32(f32_bits(x))


SPECIAL = [0.0, -0.0, 1.0, -1.0, 0.5, 2.0, 1e-3, 1e3, 32767.0, 32768.0, 65534.0, 4294967.0, 4294967.5, 1e9, 3.4e38 / 1e10,
           float("inf"), float("-inf"), float("nan")]


def rand_f(rng, lo=-6, hi=9):
    m = rng.random() + 1.0
    e = rng.randint(lo, hi)
    s = rng.choice([1, 1, 1, -1])
    return f32(s * m * 10.0 ** e)


def cases(rng, tier):
    thorough = tier == "thorough"
    n = 40000 if thorough else 3000
    # --- rounding model
    for _ in range(n):
        a, b = rand_f(rng), rand_f(rng)
        for op in ("add", "sub", "mul", "div"):
            if op == "div" and b == 0:
                continue
            yield ("util fop %s %s %s" % (op, fhex(a), fhex(b)), "fop")
        yield ("util fop sqrt %s %s" % (fhex(abs(a)), fhex(0.0)), "fop")
    # ties
    for k in range(0, 200):
        a = float(2 ** 24 + 2 * k)
        yield ("util fop add %s %s" % (fhex(a), fhex(1.0)), "fop-tie")
        yield ("util fop mul %s %s" % (fhex(float(2 ** 12 + 1)), fhex(float(2 ** 12 + 1 + 2 * k))), "fop-tie")
    # --- travel time
    vals = [0.0, 1.0, 2.0, 2.5, 4.0, 10.0, 0.001, 100.0, 1e6]
    for d in vals + [-1.0, float("inf"), float("nan")]:
        for v in vals + [-1.0, float("inf"), float("nan")]:
            for a in vals + [-1.0, float("inf"), float("nan")]:
                yield ("util travel %s %s %s" % (fhex(d), fhex(v), fhex(a)), "travel-grid")
    for _ in range(n):
        v = abs(rand_f(rng, -2, 3)) or 1.0
        a = abs(rand_f(rng, -2, 3)) or 1.0
        dstar = f32(v * v / a)
        for d in (dstar, bits_f32(f32_bits(dstar) + 1), bits_f32(max(f32_bits(dstar) - 1, 1)), abs(rand_f(rng, -3, 5))):
            yield ("util travel %s %s %s" % (fhex(d), fhex(v), fhex(a)), "travel")
    # --- scale update
    for k in range(1, 130):
        for delta in (0.0, 1.0, -1.0, 0.5):
            x = f32(k * 32767.0 + delta)
            ax = rng.randrange(3)
            c = [0.0, 0.0, 0.0]
            c[ax] = x * rng.choice([1, -1])
            yield ("util scale %d %s %s %s" % (rng.choice([0, 1, 1, 2, k % 128]), fhex(c[0]), fhex(c[1]), fhex(c[2])), "scale-edge")
    for _ in range(n // 2):
        yield ("util scale %d %s %s %s" % (rng.choice([0, 1, 5, 127]), fhex(rand_f(rng, 0, 7)), fhex(rand_f(rng, 0, 7)), fhex(rand_f(rng, 0, 7))), "scale")
    # --- seconds -> milliseconds
    for x in [0.0, -0.0, 1.0, 0.001, 0.0005, 1.9999, 4294967.0, 4294967.5, 4294966.5, 4294968.0, 1e7, -1.0, -1e-30,
              float("inf"), float("-inf"), float("nan"), 16777.216, 3600.0]:
        yield ("util msec %s" % fhex(x), "msec-edge")
    for _ in range(n // 2):
        yield ("util msec %s" % fhex(abs(rand_f(rng, -4, 6))), "msec")
    # --- interval expansion
    for _ in range(n // 2):
        lo = rand_f(rng, -2, 4)
        hi = f32(lo + abs(rand_f(rng, -2, 4)))
        off = rand_f(rng, -2, 4) * rng.choice([1, -1, -1])
        yield ("util expand %s %s %s" % (fhex(lo), fhex(hi), fhex(off)), "expand")
    for _ in range(n // 4):
        iv = []
        for ax in range(3):
            lo = rand_f(rng, -2, 4)
            iv += [lo, f32(lo + abs(rand_f(rng, -2, 4)))]
        off = rand_f(rng, -2, 4) * rng.choice([1, -1, -1])
        yield ("util boxexpand %s %s" % (" ".join(fhex(x) for x in iv), fhex(off)), "boxexpand")
    # --- the 1-D and 2-D scale helpers
    for k in list(range(1, 130, 7)) + [127, 128]:
        for delta in (0.0, 1.0, 0.5):
            x = f32(k * 32767.0 + delta) * rng.choice([1, -1])
            yield ("util scale1 %d %s" % (rng.choice([0, 1, 2, k % 128]), fhex(x)), "scale1")
            y = rand_f(rng, 0, 4)
            xy = (x, y) if rng.random() < 0.5 else (y, x)
            yield ("util scale2 %d %s %s" % (rng.choice([0, 1, 2, k % 128]), fhex(xy[0]), fhex(xy[1])), "scale2")
    # --- colour interpolation: all channel pairs of a grid x ratios
    grid = [0, 1, 2, 17, 127, 128, 200, 254, 255]
    ratios = [0.0, 1.0, 0.5, 0.25, 1 / 3.0, 0.999999, 1e-7] + [k / 63.0 for k in range(64)]
    for a in grid:
        for b in grid:
            for r in (ratios if thorough else ratios[:7] + [rng.random() for _ in range(6)]):
                yield ("util interp %d %d %d %d %d %d %s" % (a, b, rng.randrange(256), b, a, rng.randrange(256), fhex(f32(r))), "interp")
    for r in (-0.5, 1.5, 2.0, -1e-3):
        yield ("util interp 10 200 255 250 20 0 %s" % fhex(f32(r)), "interp-outside")
    # --- RGBW
    for _ in range(n):
        c = [rng.choice([0, 1, 255, rng.randrange(256)]) for _ in range(3)]
        yield ("util rgbw min %d %d %d 0 0 0" % tuple(c), "rgbw-min")
        yield ("util rgbw fixed %d %d %d %d 0 0" % (c[0], c[1], c[2], rng.randrange(256)), "rgbw-fixed")
        ref = [rng.choice([0, 1, 255, 200, 180, rng.randrange(256)]) for _ in range(3)]
        yield ("util rgbw ref %d %d %d %d %d %d" % (c[0], c[1], c[2], ref[0], ref[1], ref[2]), "rgbw-ref")
    for _ in range(n // 4):
        c = [rng.choice([0, 1, 255, rng.randrange(256)]) for _ in range(3)]
        t1 = rng.choice([500.0, 1000.0, 1500.0, 2700.0, 4000.0, 6500.0, 6600.0, 6700.0, 10000.0, 40000.0, 50000.0, rng.uniform(800, 45000)])
        t2 = rng.choice([t1, t1, rng.uniform(800, 45000)])
        yield ("util rgbwtemp %d %d %d %s %s" % (c[0], c[1], c[2], fhex(f32(t1)), fhex(f32(t2))), "rgbw-temperature")
    # --- buffer operation sequences
    def rand_ops(k):
        ops = []
        for _ in range(k):
            o = rng.choice("aaazzrrcpfbk")
            if o == "a":
                ops.append("a" + hexs([rng.randrange(256) for _ in range(rng.choice([0, 1, 2, 3, 7, 20]))]))
            elif o == "b":
                ops.append("b%d" % rng.randrange(256))
            elif o == "k":
                ops.append("k" + hexs([rng.randrange(256) for _ in range(rng.choice([0, 1, 2, 5, 17]))]))
            elif o == "z":
                ops.append("z%d" % rng.choice([0, 1, 2, 5, 11, 40]))
            elif o == "r":
                ops.append("r%d" % rng.choice([0, 1, 2, 3, 8, 9, 30]))
            elif o == "f":
                ops.append("f%d" % rng.randrange(256))
            else:
                ops.append(o)
        return ",".join(ops)
    for _ in range(n):
        kind = rng.choice(["init", "bytes", "view", "view"])
        if kind == "init":
            init = str(rng.choice([0, 1, 2, 9, 16]))
        else:
            init = hexs([rng.randrange(256) for _ in range(rng.choice([0, 1, 3, 9]))])
        yield ("util buf %s %s %s" % (kind, init, rand_ops(rng.randint(1, 6))), "buf-" + kind)


    # sizes and capacities around 2^8 and 2^16 (growth by doubling across them, shrinking back, views of that size)
    for _ in range(40 if thorough else 8):
        kind = rng.choice(["init", "view", "bytes"])
        big = rng.choice([255, 256, 257, 65535, 65536, 65537, 70000])
        init = str(rng.choice([0, 1, big])) if kind == "init" else hexs([rng.randrange(256) for _ in range(rng.choice([3, big]))])
        ops = []
        for _ in range(rng.randint(2, 6)):
            o = rng.choice("azzrrcpbk")
            if o == "a":
                ops.append("a" + hexs([rng.randrange(256) for _ in range(rng.choice([1, 300, 65536 if rng.random() < 0.2 else 2]))]))
            elif o == "z":
                ops.append("z%d" % rng.choice([1, 255, 256, big, 65535, 65536]))
            elif o == "r":
                ops.append("r%d" % rng.choice([0, 1, 255, 256, 257, 65535, 65536, 65537, big]))
            elif o == "b":
                ops.append("b%d" % rng.randrange(256))
            elif o == "k":
                ops.append("k" + hexs([rng.randrange(256) for _ in range(rng.choice([1, 257]))]))
            else:
                ops.append(o)
        yield ("util buf %s %s %s" % (kind, init, ",".join(ops)), "buf-large-" + kind)


def compare(case, om, oi):
    w = case.split(" ")
    if om == oi:
        return None
    kind = w[1]

    def same(m, i):
        if m in ("nan", "inf", "-inf"):
            u = int(i, 16)
            if m == "nan":
                return (u & 0x7f800000) == 0x7f800000 and (u & 0x7fffff) != 0
            return u == (0x7f800000 if m == "inf" else 0xff800000)
        f = frac_of_bits(int(i, 16))
        return f is not None and f == parse_q(m)
    if kind in ("travel", "fop"):
        return None if same(om, oi) else "model=%s impl=%s" % (om, oi)
    if kind == "rgbwtemp":
        # C against C and the property's own clause: reference-colour method never exceeds the original channels
        f = oi.split(" ")
        if len(f) != 5:
            return "unexpected output %s" % oi
        if f[4] != "hist-same":
            return "a converter set to this colour temperature, then configured otherwise, then set to the same temperature again converts differently from a fresh one: %s" % oi
        out = [int(x) for x in f[1].split(",")]
        orig = [int(x) for x in w[2:5]]
        if f[2] != "same":
            return "colour-temperature conversion differs from the reference-colour conversion with the same colour: %s" % oi
        if f[3] != "off-ok":
            return "turned-off conversion / colour comparison helpers: %s" % oi
        if any(o > c for o, c in zip(out[:3], orig)):
            return "reference-colour conversion exceeds the original channels: %s -> %s" % (orig, out)
        return None
    if kind in ("expand", "boxexpand"):
        a, b = om.split(","), oi.split(",")
        return None if all(same(x, y) for x, y in zip(a, b)) else "model=%s impl=%s" % (om, oi)
    return "model=%s impl=%s" % (om, oi)


def nontrivial(case, om, oi):
    return not om.startswith("e")


def outcome(case, om, oi):
    return case.split(" ")[1] + (":err" if om.startswith("e") else "")
