"""Helpers shared by the case generators."""
import struct
from fractions import Fraction


def hexs(bs):
    return "".join("%02x" % (b & 255) for b in bs) if len(bs) else "-"


def f32_bits(x):
    return struct.unpack("<I", struct.pack("<f", x))[0]


def bits_f32(u):
    return struct.unpack("<f", struct.pack("<I", u & 0xFFFFFFFF))[0]


def fhex(x):
    return "%08x" % f32_bits(x)


def frac_of_bits(u):
    """Exact rational value of a finite binary32 bit pattern; None for inf/nan."""
    s = -1 if (u >> 31) & 1 else 1
    e = (u >> 23) & 0xFF
    m = u & 0x7FFFFF
    if e == 255:
        return None
    if e == 0:
        return s * Fraction(m, 1 << 149)
    return s * Fraction((1 << 23) | m) * (Fraction(2) ** (e - 150))


def parse_q(s):
    """'num/den' (decimal) -> Fraction"""
    if "/" in s:
        n, d = s.split("/")
        return Fraction(int(n), int(d))
    return Fraction(int(s))


def exact_compare(case, om, oi):
    if om == oi:
        return None
    return "model=%s impl=%s" % (om[:200], oi[:200])
