"""Valid show files of all block kinds and the mutation streams of C03 / C06:
every prefix (sampled in quick), single-byte boundary-value edits, length-field
edits, splices, random multi-byte mutations, random strings."""
from . import skyb, trajgen, yawgen, lightgen
from .C11 import rand_plan, encode as rth_encode

BOUNDARY = [0x00, 0x01, 0x7f, 0x80, 0xff]


def valid_file(rng, crc=None):
    blocks = []
    order = [1, 2, 5, 4, 3]
    rng.shuffle(order)
    for ty in order:
        if rng.random() < 0.2:
            continue
        if ty == 1:
            tr = trajgen.rand_traj(rng, nseg=rng.choice([0, 1, 2, 4]), maxdeg=rng.choice([1, 3, 7]))
            body = trajgen.encode(tr)
        elif ty == 2:
            body = lightgen.rand_program(rng)
        elif ty == 5:
            body = yawgen.encode(yawgen.rand_yaw(rng, n=rng.choice([0, 1, 3])))
        elif ty == 4:
            body = rth_encode(*rand_plan(rng, False))
        else:
            body = [rng.randrange(32, 127) for _ in range(rng.randint(0, 12))]
        if rng.random() < 0.08:
            body = body[:rng.randint(0, 8)]              # shorter than the header of its kind
        blocks.append((ty, bytes(b & 255 for b in body)))
    if blocks and rng.random() < 0.1:
        # a record of type 0 ends the visible blocks: whatever follows it is not found, on either route
        blocks.insert(rng.randrange(len(blocks)), (0, bytes(rng.randrange(256) for _ in range(rng.choice([0, 4])))))
    crc = rng.random() < 0.4 if crc is None else crc
    return skyb.container(blocks, version=2 if crc or rng.random() < 0.5 else 1, with_crc=crc)


def fix_crc(d):
    """recompute the checksum of a v2 checksummed file after an edit (so the edit reaches the blocks)"""
    d = bytes(d)
    if len(d) >= 10 and d[:4] == b"skyb" and d[4] == 2 and d[5] & 1:
        c = skyb.ap_crc32(d[:6] + b"\0\0\0\0" + d[10:])
        return d[:6] + bytes([c & 255, (c >> 8) & 255, (c >> 16) & 255, (c >> 24) & 255]) + d[10:]
    return d


def mutations(rng, data, nprefix, nedit, nmulti):
    """yields (klass, bytes)"""
    data = bytes(data)
    n = len(data)
    yield ("valid", data)
    cuts = set(range(0, min(n, 16) + 1))
    while len(cuts) < min(nprefix, n + 1):
        cuts.add(rng.randint(0, n))
    for c in sorted(cuts):
        yield ("prefix", data[:c])
    for _ in range(nedit):
        if n == 0:
            break
        i = rng.randrange(n)
        d = bytearray(data)
        d[i] = rng.choice(BOUNDARY)
        if rng.random() < 0.7:
            yield ("edit1-crcfixed", fix_crc(d))
        else:
            yield ("edit1", bytes(d))
    for _ in range(nmulti):
        if n == 0:
            break
        d = bytearray(data)
        k = rng.choice(["multi", "len", "splice", "dup", "trunc-mid"])
        if k == "multi":
            for _ in range(rng.randint(2, 6)):
                d[rng.randrange(len(d))] = rng.randrange(256)
        elif k == "len":
            # a block length field: bytes after a type byte; approximate by editing two adjacent bytes
            i = rng.randrange(max(len(d) - 1, 1))
            d[i] = rng.choice([0, 1, 0xff, 0x10])
            if i + 1 < len(d):
                d[i + 1] = rng.choice([0, 0, 0xff, 1])
        elif k == "splice":
            i, j = sorted((rng.randrange(len(d)), rng.randrange(len(d))))
            d = d[:i] + d[j:]
        elif k == "dup":
            i, j = sorted((rng.randrange(len(d)), rng.randrange(len(d))))
            d = d[:j] + d[i:j] + d[j:]
        else:
            i = rng.randrange(len(d))
            d = d[:i] + bytes(rng.randrange(256) for _ in range(rng.randint(1, 4))) + d[i + rng.randint(0, 3):]
        yield ("mut-" + k, fix_crc(d) if rng.random() < 0.7 else bytes(d))


def corpus(rng, tier):
    thorough = tier == "thorough"
    for name, data in skyb.fixtures():
        if len(data) > 4000 and not thorough:
            # long fixtures: a few prefixes and edits only
            yield from mutations(rng, data, 6, 6, 4)
        else:
            yield from mutations(rng, data, len(data) + 1 if thorough else 40, 60 if thorough else 20, 30 if thorough else 10)
    for _ in range(1500 if thorough else 120):
        f = valid_file(rng)
        yield from mutations(rng, f, len(f) + 1 if thorough else 12, 30 if thorough else 8, 20 if thorough else 6)
    for _ in range(3000 if thorough else 200):
        n = rng.choice([0, 1, 4, 5, 9, 10, 11, 30, 100, rng.randint(0, 600)])
        d = bytes(rng.randrange(256) for _ in range(n))
        if rng.random() < 0.5 and n >= 5:
            d = b"skyb" + bytes([rng.choice([1, 2])]) + d[5:]
        yield ("random", d)
