"""Light program generator (bytecode strings)."""


def varint(v):
    out = []
    while True:
        b = v & 0x7f
        v >>= 7
        if v:
            out.append(b | 0x80)
        else:
            out.append(b)
            return out


def has_cycle(prog):
    """conservative: an infinite loop or a jump is present"""
    for i in range(len(prog) - 1):
        if prog[i] == 0x0c and prog[i + 1] == 0:
            return True
        if prog[i] == 0x12:
            return True
    return False


def rand_dur(rng, allow_zero=True):
    r = rng.random()
    if allow_zero and r < 0.15:
        return 0
    if r < 0.7:
        return rng.choice([1, 1, 2, 3, 5, 10, 25])
    if r < 0.95:
        return rng.randint(1, 200)
    return rng.choice([127, 128, 129, 300, 16383, 16384])


def rand_color(rng):
    return [rng.choice([0, 255, 1, 128, rng.randrange(256)]) for _ in range(3)]


def simple_cmd(rng, timed=None):
    """one non-control command; timed=True forces a positive duration"""
    def d():
        v = rand_dur(rng, allow_zero=not timed)
        return varint(max(v, 1) if timed else v)
    k = rng.choice(["sleep", "set", "gray", "black", "white", "fade", "fgray", "fblack", "fwhite", "nop",
                    "pyro", "pyroall", "chan", "fchan", "trig"] if not timed else
                   ["sleep", "set", "gray", "fade", "fgray", "fblack", "fwhite", "white"])
    if k == "sleep":
        return [0x02] + d()
    if k == "set":
        return [0x04] + rand_color(rng) + d()
    if k == "gray":
        return [0x05, rng.randrange(256)] + d()
    if k == "black":
        return [0x06] + d()
    if k == "white":
        return [0x07] + d()
    if k == "fade":
        return [0x08] + rand_color(rng) + d()
    if k == "fgray":
        return [0x09, rng.randrange(256)] + d()
    if k == "fblack":
        return [0x0a] + d()
    if k == "fwhite":
        return [0x0b] + d()
    if k == "nop":
        return [0x01]
    if k == "pyro":
        return [0x14, rng.choice([0x81, 0x01, 0xff, 0x7f, 0x80, 0, rng.randrange(256)])]
    if k == "pyroall":
        return [0x15, rng.randrange(256)]
    if k == "chan":
        return [0x10, rng.randrange(8), rng.randrange(8), rng.randrange(8)] + d()
    if k == "fchan":
        return [0x11, rng.randrange(8), rng.randrange(8), rng.randrange(8)] + d()
    if k == "trig":
        p = rng.choice([0x00, 0x03, 0x10, 0x20, 0x30, 0x45, 0x11, 0x12, 0x21, 0x23, 0x34, 0x35, 0x51, 0x62, 0x7f])
        return [0x13, p] + (varint(rng.randrange(0, 40)) if p & 0x30 else [])
    raise AssertionError(k)


def block(rng, depth, maxdepth, progress=True):
    """a list of commands; loops nested up to maxdepth; each loop body consumes time when progress"""
    out = []
    for _ in range(rng.randint(1, 4)):
        r = rng.random()
        if r < 0.22 and depth < maxdepth:
            body = block(rng, depth + 1, maxdepth, progress)
            if progress:
                body = simple_cmd(rng, timed=True) + body
            cnt = rng.choice([1, 2, 2, 3, 0 if depth == 0 and rng.random() < 0.3 else 2, 255 if rng.random() < 0.05 else 2])
            out += [0x0c, cnt] + body + [0x0d]
        elif r < 0.27:
            out += [0x0e]                       # reset clock
        elif r < 0.34:
            out += [0x03] + varint(rng.choice([0, 1, 5, 20, 50, 100]))   # wait until
        else:
            out += simple_cmd(rng)
    return out


def rand_program(rng, progress=True, maxdepth_cap=5):
    """maxdepth_cap=4 keeps the nesting within the four levels the format supports (C02's domain); with 5 a fifth,
    refused level occurs (memory safety of the loop stack: C03)"""
    maxdepth = rng.choice([0, 1, 2, 2, 3, 4, 5 if maxdepth_cap >= 5 else 4])
    p = block(rng, 0, maxdepth, progress)
    r = rng.random()
    if r < 0.12:
        # forward jump over a few bytes
        tail = block(rng, 0, 1, progress)
        skip = simple_cmd(rng)
        p = p + [0x12] + varint(len(p) + 1 + 1 + len(skip)) + skip + tail
        if len(varint(len(p))) > 1:
            pass
    elif r < 0.22:
        # backward jump: a cycle that consumes time
        head = block(rng, 0, 1, progress)
        body = simple_cmd(rng, timed=True) + block(rng, 0, 1, progress)
        p = head + body + [0x12] + varint(len(head))
    elif r < 0.27:
        p = p + [0x12] + varint(rng.choice([10 ** 6, 2 ** 31 - 2, 2 ** 31 - 1, 2 ** 31, 2 ** 40]))   # out of range
    elif r < 0.37:
        # jump out of a loop body, then stray LOOP_ENDs: the jump must have emptied the loop stack
        head = block(rng, 0, 0, progress)
        inner = simple_cmd(rng, timed=True)
        after = simple_cmd(rng, timed=True) + [0x0d] + simple_cmd(rng, timed=True) + [0x0d] + block(rng, 0, 0, progress)
        depth = rng.choice([1, 2])
        pre = head + [0x0c, rng.choice([2, 3, 0])] * depth + inner
        skipped = simple_cmd(rng) + [0x0d] * depth
        target = len(pre) + 1 + 1 + len(skipped)
        if target < 128:
            p = pre + [0x12] + varint(target) + skipped + after
    elif r < 0.42:
        # unmatched LOOP_END at top level
        p = block(rng, 0, 0, progress) + [0x0d] + p
    r = rng.random()
    if r < 0.3:
        p = p + [0x00]
    elif r < 0.4:
        p = p + [rng.choice([0x0f, 0x16, 0x42, 0xff])] + block(rng, 0, 0, progress)   # unknown opcode stops
    elif r < 0.5 and len(p) > 2 and not has_cycle(p):
        p = p[:rng.randrange(1, len(p))]       # truncated (arguments cut); not for programs with cycles:
                                               # a cut jump address / loop body would make a zero-time cycle
    return p[:600]


def nonprogress_program(rng):
    k = rng.randrange(4)
    pre = block(rng, 0, 0)
    if k == 0:
        return pre + [0x12] + varint(len(pre))                      # jump to itself
    if k == 1:
        return pre + [0x0c, 0x00, 0x01, 0x0d]                       # infinite loop of NOPs
    if k == 2:
        return pre + [0x0c, 0x00, 0x02, 0x00, 0x0d]                 # infinite loop of zero sleeps
    return pre + [0x0c, 0x00, 0x14, 0x81, 0x0d]


def probe_times(rng, n, cyclic=False):
    ts = [0, 1, 19, 20, 21, 40, 60000] + ([] if cyclic else [2 ** 24 - 1])
    for _ in range(n):
        r = rng.random()
        if r < 0.5:
            ts.append(20 * rng.randint(0, 300) + rng.choice([0, 0, 0, 1, -1, 7, 10]))
        elif r < 0.9:
            ts.append(rng.randint(0, 12000))
        else:
            ts.append(rng.randint(0, 100000 if cyclic else 400000))
    ts = [max(t, 0) for t in ts]
    rng.shuffle(ts)
    return ts[:n]


def special_programs(rng, thorough=False, deep=True):
    """(label, program): loops nested far beyond the four supported levels (the refused levels' LOOP_ENDs then act on
    the enclosing loops), and programs longer than 255 / 65535 bytes whose live part lies beyond those offsets"""
    out = []
    for n in (([5, 6, 7, 100, 255, 256, 257, 258, 259, 260, 300, 1000] if thorough else [5, 6, 255, 256, 257, 258, 259, 300]) if deep else []):
        body = simple_cmd(rng, timed=True)
        out.append(("deep-nesting", [0x0c, 2] * n + body + [0x0d] * n + [0x04, 9, 9, 9, 50, 0]))
        out.append(("deep-nesting", [0x04, 1, 2, 3, 1] + [0x0c, rng.choice([1, 2, 3])] * n + body + [0x0d] * (n // 2) + [0x08, 200, 100, 50, 10]
                    + [0x0d] * (n - n // 2) + [0x06, 5]))
    # triggered jumps watching more channels than there are trigger slots, replayed by back-seeks and loops
    for rep in range(6 if thorough else 3):
        prog = [0x04, 255, 0, 0, 50]
        for ch in rng.sample(range(1, 8), rng.choice([2, 4, 5, 6])):
            prog += [0x13, rng.choice([0x10, 0x20, 0x30]) | ch] + varint(rng.randrange(0, 20))
        prog += [0x04, 0, 255, 0, 50, 0x14, 0x83, 0x04, 0, 0, 255, 50]
        if rep % 3 == 2:
            prog = [0x0c, 3] + prog + [0x0d, 0x07, 20]
        out.append(("many-triggers", prog))
    for size in ([250, 65530, 65700, 131080] if thorough else [250, 65530, 65700]):
        live = block(rng, 0, 2) + [0x04, 7, 7, 7, 50] + block(rng, 0, 1)
        # jump over a pad of NOPs into the live part, which ends with a jump back to its own start (a cycle that consumes time)
        head = [0x12] + varint(size)
        prog = head + [0x01] * (size - len(head))
        start = len(prog)
        prog += simple_cmd(rng, timed=True) + live
        if rng.random() < 0.5:
            # (a long sleep per round keeps the number of rounds small up to the largest probed instant)
            prog += [0x02] + varint(16383) + [0x12] + varint(start)
        out.append(("long-program", prog))
    return out
