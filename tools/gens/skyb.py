"""Builders for .skyb containers and blocks (generator side only)."""
import os, glob

POLY = 0xEDB88320
_TAB = []
for i in range(256):
    c = i
    for _ in range(8):
        c = (c >> 1) ^ POLY if c & 1 else c >> 1
    _TAB.append(c)


def ap_crc32(data, crc=0):
    for b in data:
        crc = _TAB[(crc ^ b) & 255] ^ (crc >> 8)
    return crc


def block(ty, body):
    n = len(body)
    return bytes([ty & 255, n & 255, (n >> 8) & 255]) + bytes(body)


def container(blocks, version=1, features=0, with_crc=False, bad_crc=False):
    """blocks: list of (type, body bytes)"""
    body = b"".join(block(t, b) for t, b in blocks)
    if version == 1:
        return b"skyb\x01" + body
    if with_crc:
        features |= 1
        f = b"skyb\x02" + bytes([features]) + b"\0\0\0\0" + body
        c = ap_crc32(f)
        if bad_crc:
            c ^= 0x1000
        return f[:6] + bytes([c & 255, (c >> 8) & 255, (c >> 16) & 255, (c >> 24) & 255]) + f[10:]
    return b"skyb\x02" + bytes([features & 0xFE]) + body


def fixtures():
    out = []
    for p in sorted(glob.glob(os.path.join(os.environ.get("SB_REPO", "/repo"), "test", "fixtures", "*.skyb"))):
        with open(p, "rb") as f:
            out.append((os.path.basename(p), f.read()))
    return out


def parse_blocks(data):
    """Reference split of a well-formed container (used to pull blocks out of fixtures)."""
    if data[:4] != b"skyb":
        return []
    pos = 5
    if data[4] == 2:
        pos = 6
        if data[5] & 1:
            pos = 10
    out = []
    while pos + 3 <= len(data):
        ty = data[pos]
        n = data[pos + 1] | (data[pos + 2] << 8)
        if ty == 0:
            break
        out.append((ty, data[pos + 3:pos + 3 + n]))
        pos += 3 + n
    return out
