"""Trajectories for the takeoff / landing statistics (generator side)."""
from . import trajgen as G


def well_conditioned_cubic(z0, pts):
    z1, z2, z3 = pts
    c3 = -z0 + 3 * z1 - 3 * z2 + z3
    c2 = 3 * z0 - 6 * z1 + 3 * z2
    c1 = 3 * (z1 - z0)
    return abs(c3) >= 0.05 * max(abs(c2), abs(c1)) and c3 != 0


def climb_traj(rng, long=False):
    """starts low, climbs through constant / linear / cubic altitude segments, then wanders; long: the climb starts
    beyond byte offset 65536 of the block"""
    scale = rng.choice([1, 1, 2, 10])
    z = rng.randint(0, 200)
    start = [rng.randint(-500, 500), rng.randint(-500, 500), z, 0]
    segs = G.long_prefix(rng, start[0], start[1], z, deg=3) if long else []
    for i in range(rng.randint(1, 7)):
        kind = rng.choice(["const", "lin", "lin", "cubic", "cubic"])
        d = rng.choice([500, 1000, 2000, 5000, 20000, rng.randint(100, 60000)])
        xy = [rng.choice([[], [rng.randint(-3000, 3000)]]) for _ in range(2)]
        if kind == "const":
            zs = []
        elif kind == "lin":
            z2 = max(-3000, min(12000, z + rng.choice([rng.randint(0, 3000), rng.randint(-1500, 3000), 0])))
            zs = [z2]
            z = z2
        else:
            for _ in range(50):
                z3 = max(-3000, min(12000, z + rng.randint(-1000, 3000)))
                z1 = z + rng.randint(-800, 1500)
                z2 = z3 + rng.randint(-1500, 800)
                if well_conditioned_cubic(z, (z1, z2, z3)):
                    break
            else:
                z1, z2, z3 = z + 100, z + 500, z + 1500
                if not well_conditioned_cubic(z, (z1, z2, z3)):
                    z1, z2, z3 = z, z, z + 600
            zs = [z1, z2, z3]
            z = z3
        segs.append(dict(dur=d, x=xy[0], y=xy[1], z=zs, yaw=[]))
    return dict(scale=scale, use_yaw=False, start=start, segs=segs), scale


def closed_form_traj(rng, kind=None):
    """a climb whose altitude is really a polynomial of lower degree stored as a cubic: from rest at constant
    acceleration (z0, z0, z0+A/3, z0+A), deceleration to rest, or a linear climb (evenly spaced control points);
    returns (trajectory, scale, A in stored units, kind)"""
    scale = rng.choice([1, 1, 2])
    z0 = rng.choice([0, 0, 8, 600, rng.randint(0, 300)])
    A = 3 * rng.choice([27, 100, 1000, 333, 2500, rng.randint(10, 3000)])
    kind = kind or rng.choice(["accel", "accel", "decel", "linear"])
    if kind == "accel":
        zs = [z0, z0 + A // 3, z0 + A]
    elif kind == "decel":
        zs = [z0 + 2 * A // 3, z0 + A, z0 + A]
    else:
        zs = [z0 + A // 3, z0 + 2 * A // 3, z0 + A]
    segs = []
    if rng.random() < 0.5:
        segs.append(dict(dur=rng.choice([1000, 4000]), x=[rng.randint(-500, 500)], y=[], z=[], yaw=[]))
    segs.append(dict(dur=rng.choice([2000, 4000, 10000]), x=[], y=[], z=zs, yaw=[]))
    segs.append(dict(dur=5000, x=[], y=[], z=[min(zs[-1] + 1000, 32767)], yaw=[]))
    return dict(scale=scale, use_yaw=False, start=[0, 0, z0, 0], segs=segs), scale, A, kind


def landing_traj(rng, long=False):
    """arbitrary flight followed by 0..4 vertical descending segments with horizontal jitter; long: the flight is
    preceded by enough segments to put the final run beyond byte offset 65536 of the block"""
    scale = rng.choice([1, 1, 2, 10])
    z = rng.randint(2000, 9000)
    x, y = rng.randint(-2000, 2000), rng.randint(-2000, 2000)
    start = [x, y, rng.randint(0, 3000), 0]
    segs = G.long_prefix(rng, x, y, start[2], deg=3) if long else []
    zz = start[2]
    for i in range(rng.randint(0, 4)):
        nx, ny = x + rng.randint(-2000, 2000), y + rng.randint(-2000, 2000)
        nz = max(200, min(12000, zz + rng.randint(-1500, 2500)))
        kind = rng.choice(["lin", "cubic"])
        d = rng.choice([1000, 3000, 10000, rng.randint(200, 60000)])
        if kind == "lin":
            segs.append(dict(dur=d, x=[nx], y=[ny], z=[nz], yaw=[]))
        else:
            segs.append(dict(dur=d, x=[x + 10, nx - 10, nx], y=[ny], z=[zz + 50, nz + 50, nz], yaw=[]))
        x, y, zz = nx, ny, nz
    jit = rng.choice([0, 0, 0, 1, 2, 5, 50])
    run_drop = 0
    nvert = rng.choice([1, 2, 3]) if long else rng.choice([0, 1, 1, 2, 3, 4])
    for i in range(nvert):
        drop = rng.choice([0, rng.randint(1, 3000), rng.randint(1, 200)])
        nz = zz - drop
        if nz < -30000:
            nz = zz
        d = rng.choice([1000, 5000, 10000, rng.randint(200, 60000)])
        jx = rng.randint(-jit, jit)
        jy = rng.randint(-jit, jit)
        kind = rng.choice(["const", "lin", "lin", "cubic"]) if drop else "const"
        if kind == "const" or drop == 0:
            seg = dict(dur=d, x=[x + jx] if jx else [], y=[y + jy] if jy else [], z=[] if drop == 0 else [nz], yaw=[])
        elif kind == "lin":
            seg = dict(dur=d, x=[x + jx] if jx else [], y=[y + jy] if jy else [], z=[nz], yaw=[])
        else:
            # monotone, well-conditioned cubic descent
            z1 = zz - drop // 6
            z2 = nz + drop // 3
            if not (zz >= z1 >= z2 >= nz and well_conditioned_cubic(zz, (z1, z2, nz))):
                z1, z2 = zz, zz
                if not well_conditioned_cubic(zz, (z1, z2, nz)):
                    z1, z2 = zz, nz
            seg = dict(dur=d, x=[x + jx] if jx else [], y=[y + jy] if jy else [], z=[z1, z2, nz], yaw=[])
        segs.append(seg)
        run_drop += zz - nz
        x, y, zz = x + jx, y + jy, nz
    landing_traj.last_run_drop = run_drop          # descent of the generated vertical run, in stored units
    return dict(scale=scale, use_yaw=False, start=start, segs=segs), scale, jit
