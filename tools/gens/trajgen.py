"""Abstract trajectories, their encoding and probe times (generator side)."""
import struct
from .common import f32_bits, bits_f32, fhex

DURS = [1, 2, 20, 999, 1000, 1001, 5000, 59999, 60000, 60001, 65535]
COORDS = [0, 1, -1, 100, -100, 32767, -32768, 1000, -2500]


def e16(v):
    v &= 0xffff
    return [v & 255, v >> 8]


def rand_axis(rng, kind=None, small=False):
    n = kind if kind is not None else rng.choice([0, 0, 1, 1, 1, 3, 3, 7])
    if small:
        return [rng.randint(-300, 300) for _ in range(n)]
    return [rng.choice(COORDS) if rng.random() < 0.3 else rng.randint(-6000, 6000) for _ in range(n)]


def rand_traj(rng, nseg=None, allow_zero_dur=False, degs=None, use_yaw=None, maxdeg=7):
    scale = rng.choice([1, 1, 2, 10, 127, rng.randint(1, 127)])
    nseg = rng.choice([0, 1, 2, 3, 5, 8]) if nseg is None else nseg
    start = [rng.choice(COORDS), rng.randint(-3000, 3000), rng.randint(0, 3000), rng.choice([0, 900, -900, 3599, 3600, -1, -3601, 7000, rng.randint(-32768, 32767)])]
    segs = []
    for i in range(nseg):
        d = rng.choice(DURS) if rng.random() < 0.6 else rng.randint(1, 65535)
        if allow_zero_dur and 0 < i < nseg - 1 and rng.random() < 0.2:
            d = 0      # never first or last: the start/end helpers probe those instants
        ks = [rng.choice([k for k in (0, 1, 3, 7) if k <= maxdeg]) for _ in range(4)] if degs is None else degs
        seg = dict(dur=d, x=rand_axis(rng, ks[0]), y=rand_axis(rng, ks[1]), z=rand_axis(rng, ks[2]),
                   yaw=[rng.randint(-4000, 4000) for _ in range(ks[3])])
        segs.append(seg)
    return dict(scale=scale, use_yaw=(rng.random() < 0.5) if use_yaw is None else use_yaw, start=start, segs=segs)


def long_prefix(rng, x, y, z, min_bytes=65700, deg=7, flat_z=True, dur=None):
    """segments that hover around (x, y, z) (stored units) and end exactly there, long enough to push whatever follows
    beyond byte offset 65536 of the block (offsets kept in 16 bits by mistake wrap there)"""
    per = 3 + 2 * deg * (2 if flat_z else 3)
    n = min_bytes // per + 1
    segs = []
    for i in range(n):
        last = (i == n - 1)
        def pts(c):
            v = [max(-32768, min(32767, c + rng.randint(-20, 20))) for _ in range(deg)]
            v[-1] = c if last else v[-1]
            return v
        segs.append(dict(dur=(dur if dur is not None else rng.choice([10, 20, 50])), x=pts(x), y=pts(y), z=([] if flat_z else pts(z)), yaw=[]))
    return segs


def close_loops(rng, tr, prob=0.5):
    """make some curved segments end exactly where they start (a loop or an out-and-back move in one segment): the end
    point says nothing about what happens in between"""
    cur = list(tr["start"])
    for s in tr["segs"]:
        loop = rng.random() < prob and any(len(s[ax]) >= 3 for ax in ("x", "y", "z", "yaw"))
        for k, ax in enumerate(("x", "y", "z", "yaw")):
            if s[ax]:
                if loop:
                    s[ax] = list(s[ax][:-1]) + [cur[k] if ax != "yaw" else s[ax][-1]]
                    if ax == "yaw":
                        s[ax][-1] = cur[k]
                cur[k] = s[ax][-1]
    return tr


def bits_of_len(l):
    return {0: 0, 1: 1, 3: 2, 7: 3}[len(l)]


def encode(tr):
    b = [tr["scale"] | (128 if tr["use_yaw"] else 0)]
    for v in tr["start"]:
        b += e16(v)
    for s in tr["segs"]:
        b.append(bits_of_len(s["x"]) | bits_of_len(s["y"]) << 2 | bits_of_len(s["z"]) << 4 | bits_of_len(s["yaw"]) << 6)
        b += e16(s["dur"])
        for ax in ("x", "y", "z", "yaw"):
            for v in s[ax]:
                b += e16(v)
    return b


def f32(x):
    return bits_f32(f32_bits(x))


def nextafter32(x, up):
    u = f32_bits(x)
    if x == 0:
        return bits_f32(1) if up else -bits_f32(1)
    if (x > 0) == up:
        u += 1
    else:
        u -= 1
    return bits_f32(u)


def boundaries(tr):
    out = [0]
    for s in tr["segs"]:
        out.append(out[-1] + s["dur"])
    return out


def probe_times(rng, tr, n, interior_only=False):
    """float32 times: at, one ulp before/after every boundary, interior points, special values"""
    bs = boundaries(tr)
    ts = []
    if not interior_only:
        ts += [0.0, -0.0, -1.0, float("-inf"), float("inf"), 1e30]
        for ms in bs:
            t = f32(ms / 1000.0)
            ts += [t, nextafter32(t, True), nextafter32(t, False)]
        ts.append(f32(bs[-1] / 1000.0 + 5))
    for i in range(len(bs) - 1):
        a, b = bs[i] / 1000.0, bs[i + 1] / 1000.0
        if b <= a:
            continue
        for fr in (0.5, 0.25, 0.125, 0.75, rng.random() * 0.8 + 0.1):
            ts.append(f32(a + (b - a) * fr))
    if not interior_only:
        rng.shuffle(ts)
    keep = ts[:n]
    return keep


def decode(b):
    """bytes -> (scale, start [x,y,z,yaw], segments [(dur_ms, {axis: control points incl. start})]) with exact Fractions"""
    from fractions import Fraction
    scale = b[0] & 0x7f

    def i16(i):
        v = b[i] | (b[i + 1] << 8)
        return v - 65536 if v >= 32768 else v
    start = [Fraction(i16(1) * scale), Fraction(i16(3) * scale), Fraction(i16(5) * scale), Fraction(i16(7) % 3600, 10)]
    segs = []
    off = 9
    cur = list(start)
    while off < len(b) and scale != 0:
        h = b[off]
        need = 2 + 2 * sum((1 << ((h >> s) & 3)) - 1 for s in (0, 2, 4, 6))
        if len(b) - off - 1 < need:
            break
        dur = b[off + 1] | (b[off + 2] << 8)
        p = off + 3
        axes = []
        for k, s in enumerate((0, 2, 4, 6)):
            n = (1 << ((h >> s) & 3)) - 1
            pts = [cur[k]]
            for _ in range(n):
                pts.append(Fraction(i16(p) * scale) if k < 3 else Fraction(i16(p) % 3600, 10))
                p += 2
            axes.append(pts)
            cur[k] = pts[-1]
        segs.append((dur, axes))
        off = p
    return scale, start, segs


def bezier(pts, u):
    pts = list(pts)
    while len(pts) > 1:
        pts = [(1 - u) * a + u * b for a, b in zip(pts, pts[1:])]
    return pts[0]


def altitude_at(b, t):
    """exact altitude of the trajectory at time t (Fraction seconds)"""
    from fractions import Fraction
    scale, start, segs = decode(b)
    s_ms = 0
    z = start[2]
    for dur, axes in segs:
        if t * 1000 <= s_ms + dur and dur > 0:
            u = (t * 1000 - s_ms) / dur
            return bezier(axes[2], max(u, Fraction(0)))
        s_ms += dur
        z = axes[2][-1]
    return z


def z_points_at(b, start_ms):
    """altitude control points of the segment starting at start_ms"""
    scale, start, segs = decode(b)
    s_ms = 0
    for dur, axes in segs:
        if s_ms == start_ms:
            return axes[2], dur
        s_ms += dur
    return None, None


def root_time_slack(b, start_ms):
    """float noise of the target altitude (2^-20 max|z|) divided by the mean slope of the segment: how far
    the instant of a crossing can move for a linear / gently sloped segment"""
    from fractions import Fraction
    pts, dur = z_points_at(b, start_ms)
    if not pts or dur is None:
        return Fraction(0)
    rise = abs(pts[-1] - pts[0])
    if rise == 0:
        return Fraction(dur, 1000)
    return Fraction(dur, 1000) * (max(abs(p) for p in pts) + 1) / (1 << 20) / rise
