"""Abstract yaw control blocks (generator side)."""
from .trajgen import e16, f32, nextafter32, DURS


def rand_yaw(rng, n=None, allow_zero_dur=False):
    n = rng.choice([0, 1, 2, 3, 5, 9, 20]) if n is None else n
    deltas = []
    for _ in range(n):
        d = rng.choice(DURS) if rng.random() < 0.6 else rng.randint(1, 65535)
        if allow_zero_dur and rng.random() < 0.1:
            d = 0
        c = rng.choice([0, 1, -1, 900, -900, 3600, 32767, -32768, rng.randint(-32768, 32767)])
        deltas.append((d, c))
    return dict(flags=rng.choice([0, 1, 1, 0, 0xff, 0xfe, rng.randrange(256)]),
                offset=rng.choice([0, 900, -900, 32767, -32768, rng.randint(-32768, 32767)]), deltas=deltas)


def encode(y):
    b = [y["flags"]] + e16(y["offset"])
    for d, c in y["deltas"]:
        b += e16(d) + e16(c)
    return b


def boundaries(y):
    out = [0]
    for d, _ in y["deltas"]:
        out.append(out[-1] + d)
    return out


def probe_times(rng, y, n, interior_only=False):
    bs = boundaries(y)
    ts = []
    if not interior_only:
        ts += [0.0, -0.0, -1.0, float("-inf"), float("inf"), 1e30]
        for ms in bs:
            t = f32(ms / 1000.0)
            ts += [t, nextafter32(t, True), nextafter32(t, False)]
        ts.append(f32(bs[-1] / 1000.0 + 5))
    for i in range(len(bs) - 1):
        a, b = bs[i] / 1000.0, bs[i + 1] / 1000.0
        if b <= a:
            continue
        for fr in (0.5, 0.25, 0.75, rng.random() * 0.8 + 0.1):
            ts.append(f32(a + (b - a) * fr))
    if not interior_only:
        rng.shuffle(ts)
    return ts[:n]
