#!/usr/bin/env python3
"""Writes MANIFEST.json from the table below (one place to keep it valid)."""
import json, os
HERE = os.path.dirname(os.path.abspath(__file__))
VERIF = os.path.dirname(HERE)
props = [json.loads(l) for l in open(os.path.join(VERIF, "properties.jsonl"))]
ids = [p["id"] for p in props]

CLAIMED = {
    "C19": {
        "text": "Coq theorems (parse/write round trips for all 16/32-bit values and offsets, the varuint decoder = declarative base-128 reading for every byte list/offset/stated length, 'never reads at or beyond n', RGB565 laws over all codes/colours by reflection) about a model of parsing.c/colors.c; the model is tied to the code by exhaustive/differential runs of the extracted model against the library on the same inputs.",
        "note": "Trusted: Coq kernel (vm_compute), hand-written model of parsing.c + correspondence harness (guard page catches reads beyond the stated length), extraction (ExtrOcamlBasic), gen_consts.py. No axioms.",
        "technique": "Coq proof (induction + reflection over finite domains) + differential correspondence of the extracted model against the C code",
        "design": "DESIGN.md section 7 C19",
    },
    "C04": {
        "text": "Coq theorems about a model of formats/binary.c over both file abstractions: initialisation classifies every byte string exactly as the grammar (magic, version, feature byte, checksum, first header), the blocks walked are exactly the records laid end to end (with the one allowed route difference on a body cut short), lookup = first record of the type / error / not-found from any cursor position, body reads return exactly the body or SB_EREAD, and records(encode(blocks)) = blocks; tied to the code by differential runs on generated files, every header truncation, both routes.",
        "note": "Trusted: Coq kernel, hand-written model of binary.c (read(2)/lseek(2) contract for regular files assumed for the descriptor route), extraction, harness (memfd for descriptors). No axioms.",
        "technique": "Coq proof (induction over records with fuel bounds) + differential correspondence of the extracted parser model against the C parser on both routes",
        "design": "DESIGN.md section 7 C04",
    },
    "C05": {
        "text": "Coq theorems: the CRC table regenerated from crc32.c is the reflected CRC-32 table; table-driven update = bit-serial CRC; split independence; chunked whole-file checksum = CRC of the file with bytes 6..9 zeroed for every length; acceptance implies stored = CRC; any alteration confined to <= 4 consecutive bytes (after or inside the field) and any one-bit alteration is rejected as SB_ECORRUPTED on both routes for every file length; two-bit alterations are rejected whenever the two bits are less than 2^32-1 positions (512 MiB) apart, because the register step has multiplicative order exactly 2^32-1 (the reflected polynomial is primitive: proved inside the kernel by 32x32 bit-matrix exponentiation, the cofactor tests for 3, 5, 17, 257, 65537 and a gcd argument; the earlier 2^22 orbit sweep is kept as an independent theorem). Tied to the code by the regenerated table and by differential runs (all single-bit flips, sampled double flips, all 1..4-byte windows).",
        "note": "Trusted: Coq kernel (vm_compute for the 256-entry table and the 2^22-step orbit sweep), gen_consts.py, hand-written model of the checksum loop and of parser_init, extraction, harness. Two bits 2^32-1 or more positions apart (files of 512 MiB and more) are outside the theorem - and outside what any 32-bit CRC can detect. No axioms.",
        "technique": "Coq proof (GF(2) linearity + injectivity of the register step, primitivity of the polynomial by matrix exponentiation, reflection for the table) + regenerated table + differential correspondence",
        "design": "DESIGN.md section 7 C05",
    },
    "C01": {
        "text": "Coq theorems about an exact (rational) model of the trajectory decoder and player: decode(encode T) gives back header, durations, chained start times and control points for every well-formed abstract trajectory (all 256 header combinations, any scale 1..127); the power-basis polynomial built by the transcription of sb_poly_make_bezier evaluated by Horner equals the de Casteljau Bezier curve for 1..8 control points; position_at = traj_pos (segment containing t, elapsed fraction, clamps at 0 and at the end) for every t incl. +-inf; segments join; every duration query = sum of durations; a 16-bit block cannot wrap uint32; the power-basis coefficients of a segment axis grow by at most 3^n and evaluating the axis polynomial in binary32 (Horner, every operation rounded) is within 17*2^-24*3^n*max|P| of the exact value at every point of the segment (the evaluation term of the comparison tolerance is a theorem). Tied to the code by differential runs: header fields, segment counts, the five duration queries exact; positions within the float32 bound tol_at (Coq-defined, assumed) of the exact model at/around every boundary.",
        "note": "Trusted: Coq kernel; hand-written model (exact arithmetic where the code uses binary32: of the rounding bound tol_at the Horner evaluation term is proved (segment_axis_binary32_evaluation_error), the rounding of the coefficient conversion and of the curve parameter stays a named numeric assumption with safety factor 4; the binary32 segment selection can differ from the exact one only within rounding of a boundary, covered by the neighbour term of the tolerance); extraction; harness. No axioms (Z and Q only).",
        "technique": "Coq proof (round trip + Bezier identity by field + induction over segments) + differential correspondence with a Coq-defined float tolerance",
        "design": "DESIGN.md section 7 C01",
    },
    "C07": {
        "text": "Coq theorems over the reals (Coquelicot is_derive): for every coefficient list the model's derivative polynomial is the derivative of the evaluated function; with the 1/duration scaling of sb_i_get_dpoly/ddpoly, velocity is the time derivative of the position function of the segment and acceleration that of velocity, for every degree and every duration >= 1 ms; the executable rational model computes exactly those functions (Q2R homomorphism); zero beyond the end, clamped before zero. Tied to the code by differential runs of velocity/acceleration strictly inside segments (fresh and history mode, exercising the lazy derivative cache) within the Coq-defined float bound.",
        "note": "Trusted: Coq kernel; standard-library real-number axioms (ClassicalDedekindReals.sig_forall_dec, sig_not_dec, FunctionalExtensionality.functional_extensionality_dep, Classical_Prop.classic) as reported by Print Assumptions; hand-written model; tol_at assumed; extraction; harness.",
        "technique": "Coq proof over R (Coquelicot derivatives, chain rule) + Q/R homomorphism + differential correspondence",
        "design": "DESIGN.md section 7 C07",
    },
    "C08": {
        "text": "Coq theorem on the cursor model of the trajectory player (and the same for the yaw player in C10): from any cursor reachable by any history of queries, a query lands where a fresh player lands or, when t is exactly a segment boundary, on the adjoining segment; the cursor left behind is reachable again; errors do not depend on history; fuel always suffices. Tied to the code by C-against-C bit-for-bit comparison of a player with a history against a fresh player for every query (all orderings of 5 probes, long mixed sequences, yaw player included), plus positions against the exact model.",
        "note": "Trusted: Coq kernel; hand-written cursor model (exact comparisons; the binary32 comparisons of the code agree except within rounding of a boundary, which the property allows); harness flags computed from public struct fields. No axioms.",
        "technique": "Coq proof (invariant over reachable cursors, induction over histories) + C-vs-C bit-for-bit differential runs",
        "design": "DESIGN.md section 7 C08",
    },
    "C10": {
        "text": "Coq theorems about an exact model of yaw_control.c: header fields round-trip for any flag byte/offset/setpoints; yaw = offset + completed changes + elapsed fraction (tenths of a degree / 10) and rate = change/duration at every time, offset before zero, final yaw and zero rate after the end; duration = sum; accumulated yaw fits int32 for 16-bit blocks; history independence of the yaw player. Tied to the code by differential runs (fields and durations exact, yaw/rate within a Coq-defined float bound, neighbours included).",
        "note": "Trusted: Coq kernel; hand-written model (exact arithmetic; yaw_tol is an assumed float bound); extraction; harness. No axioms.",
        "technique": "Coq proof (round trip, induction over setpoints) + differential correspondence",
        "design": "DESIGN.md section 7 C10",
    },
    "C11": {
        "text": "Coq theorems about a byte-level model of sb_rth_plan_evaluate_at (varuints, flags, action-dependent fields, uint32 overflow test, 2^24 duration limit, (float)uint32 comparison): evaluate(encode p) t = eval_spec p t for every well-formed abstract plan and every time (negative, infinite, NaN), never 'same as previous', no wrapped values, conversion monotone and exact up to 2^24. Tied to the code by exact differential runs on generated plans (all action/flag combinations, multi-byte varuints, overflow cases) and a malformed stream.",
        "note": "Trusted: Coq kernel; hand-written model following the repaired (bounds-checked) code; extraction; harness. No axioms.",
        "technique": "Coq proof (encoder/decoder round trip, scan invariant) + exact differential correspondence",
        "design": "DESIGN.md section 7 C11",
    },
    "C02": {
        "text": "Coq refinement theorem: the polling interpreter model (transcription of CommandExecutor::step, the command handlers, LoopStack and BytecodePlayer::seek: clock-reset flag, stale fields after rewind, re-arming once ended, proposal+1) reports for a fresh player and every timestamp exactly the state of an independent event-driven semantics (instructions decoded to abstract commands; all instructions scheduled strictly before t executed plus the first one scheduled at t): colour (exact linear interpolation inside fades), pyro mask, ended flag, next event; seek terminates whenever the program makes progress; next event >= t; state held after the end; unknown opcodes stop. Tied to the code by differential runs of BOTH the polling model and the event-driven specification against the library on structured programs (all opcodes, nesting 0..4 - deeper nesting is outside the property's domain and is exercised for memory safety by C03 -, jumps, zero durations, truncated arguments, programs whose live part lies beyond byte 65535, one player queried repeatedly).",
        "note": "Trusted: Coq kernel; hand-written model (exact integers: the float clock conversions of the code are the identity below 2^24 ms, the property's bound; colour inside a fade compared within exact-1-2^-12 < channel <= exact+2^-12 because the code truncates a binary32 evaluation); C API has no signal source (channel colours black, triggers never fire); extraction; harness. No axioms.",
        "technique": "Coq refinement proof (abstraction relation, one step = one instruction, induction over wake-ups) + differential correspondence of model and spec against the C++ interpreter",
        "design": "DESIGN.md section 7 C02",
    },
    "C09": {
        "text": "Coq theorem: after any history of seeks (backwards, repeated, far ahead) through one player, a seek to t reports the declarative state at t, possibly advanced by k further instructions scheduled at that very instant, k <> 0 only when t repeats the previous query (the property's latitude); rewind + reset restores the fresh state up to dead fields. The literal statement including the next-event time is refuted by a machine-checked counterexample (repeated query at the instant the end was reported: next event t+60000 instead of t) and proved with that clause weakened. Tied to the code by exact history-mode differential runs (every ordering of small probe sets with repeated instants, random walks with back-jumps).",
        "note": "As C02. The next-event time of a repeated query at the end instant is outside the property (colour and pyro answers) and documented in DESIGN.md.",
        "technique": "Coq proof (history invariant over the refinement relation) + exact history-mode differential correspondence",
        "design": "DESIGN.md section 7 C09",
    },
    "C12": {
        "text": "Coq theorems about a model of sb_trajectory_init_from_rth_plan_entry over the builder model (scale selection, seconds->milliseconds conversions, hold / neck / leg / post-delay phases, binary32 modelled bit-exactly): the generated bytes decode and last exactly the sum of the four phases in whole milliseconds, a landing entry has no leg, unknown actions fail, the scale is in 1..127 and (for binary32 coordinates) the smallest that holds the start point; the conversion with closed-form holds that the correspondence runs (entry times of weeks) equals the transcription. Tied to the code by exact differential runs (generated bytes and total duration identical) plus an oracle from the property: probes along every leg within one quantum (+ millisecond quantisation of the phase boundaries) of the ideal piecewise-linear path.",
        "note": "Trusted: Coq kernel; hand-written model; Base/F32.v rounding model (validated bit-for-bit by C20's primitive-operation cases; its error/monotonicity theorems are in Properties_C20); path-within-quantum is checked by the oracle on every run, not proved; extraction; harness. No axioms.",
        "technique": "Coq proof (phase durations through the builder round trip) + bit-exact differential correspondence + property oracle on probes",
        "design": "DESIGN.md section 7 C12",
    },
    "C16": {
        "text": "Coq theorems about a bit-exact model of builder.c: init gives a decodable empty builder; every successful append-line / hold keeps the bytes decodable and adds exactly the requested duration (the halving recursion above 60 s loses nothing, never runs out of fuel for 32-bit durations); a call fails exactly when a coordinate is not representable (set-start also after the first segment) and a failing call returns no new state; a stored coordinate is within one quantum (plus binary32 rounding of the division) of the requested one; REFINEMENT: after any sequence of set-start / append-line / hold calls (failing calls included, durations of any size below 2^32 ms) the builder's bytes are exactly the encoding of a well-formed abstract trajectory whose segments are straight lines, which lasts exactly the sum of the durations requested by the successful calls and whose end point is the quantisation of the last requested point (builder_refines_spec), so C01's position theorem applies to whatever the builder produced; the closed-form hold used to run holds of weeks equals the loop. Tied to the code by exact differential runs: result code and buffer size after every call of every sequence up to length 4 over an 8-letter alphabet and long random sequences, finished trajectory bytes, final builder bytes; plus the property oracle (passes within one quantum of each requested point at its cumulative time).",
        "note": "Trusted: Coq kernel; hand-written model following the repaired code (validation before any write); Base/F32.v; the round trip is proved for x, y, z at the end of every call sequence; yaw and the intermediate instants (cumulative time of each earlier call) are checked by probes on every run, not proved; extraction; harness. No axioms.",
        "technique": "Coq proof (builder output decodes, duration additivity by induction on the halving recursion) + bit-exact differential correspondence",
        "design": "DESIGN.md section 7 C16",
    },
    "C18": {
        "text": "Coq theorems over the reals: the polynomial built from 1..8 Bezier control points and a duration evaluates to the de Casteljau curve at u/duration (the code's second branch of sb_poly_make_linear for a duration below FLT_EPSILON is transcribed separately: constant midpoint, equal to the generic constructor elsewhere); derivative / scale / stretch / add-constant laws for every length; hodograph; the executable rational instance agrees with the real one; the factorial table regenerated from poly.c is the factorials; Horner evaluation in the binary32 model is within gamma_2n * sum|c_i||u|^i of the exact value for every coefficient list and argument (Higham's bound; 17*2^-24 for up to 8 coefficients), likewise a+b*u. Root finding (degree <= 3, libm-based in the code): the certificates used as the oracle are proved sound over the reals (interval Horner enclosure, exclusion by bisection, every real root inside the Cauchy bound lies in a reported box, a sign change certifies a root, extrema enclosures; closed forms for degree <= 2), so each run's verdicts are per-instance theorems. Tied to the code by differential runs within float evaluation bounds and against the certificates. A binary32 model of the linear touch test (Model/Touch.v) with the theorem that a straight segment is reported to take, in [0,1], the two values its own binary32 evaluation gives at u = 0 and u = 1, for every pair of binary32 coefficients with a significant slope; the extracted model and the library must agree bit for bit on those end values and answers. A binary32 model of the closed-form solvers for at most three significant coefficients (Model/Solve32.v: at most two roots, correctly rounded linear root, root count decided by the computed discriminant, Vieta product within two roundings), compared with sb_poly_solve bit for bit.",
        "note": "Trusted: Coq kernel; standard-library real-number axioms (sig_forall_dec, sig_not_dec, functional_extensionality_dep, classic); the Horner evaluation bound is proved (no axioms), the bounds for coefficient conversion and the root tolerances are assumed/calibrated, cubic root claims are per instance (certificate), not for all inputs; known finding D13 (extrema of degree > 3 unset). Extraction; harness.",
        "technique": "Coq proof over R (field identities, Coquelicot derivatives, verified interval/bisection certificates) + differential correspondence",
        "design": "DESIGN.md section 7 C18",
    },
    "C20": {
        "text": "Coq theorems: the binary32 rounding model used throughout (error <= 2^-24 relative, monotone, exact on integers up to 2^24); travel time: invalid -> infinity, zero distance, infinite acceleration, the cruise/triangular profile identities, regimes meet at v^2/a, monotone in distance; scale update raises the scale to exactly the smallest sufficient value (binary32 coordinates) or reports overflow above 127; seconds->milliseconds within 1 ms (+ rounding) or invalid/overflow; interval expansion never inverts; colour interpolation hits both end points and stays between them; RGBW min-subtraction / fixed / reference laws; the byte buffer refines a list (contents survive growth, size <= capacity, views neither grow nor shrink). Tied to the code by BIT-EXACT differential runs of every primitive float operation, all utilities on boundary grids, colour grids and buffer operation sequences.",
        "note": "Trusted: Coq kernel; hand-written models (bit-exact on binary32 in the normal range; subnormal/overflowing results are not generated); sb_rgb_color_from_color_temperature (powf/logf) is not modelled; x86-64 SSE arithmetic without contraction; extraction; harness. No axioms.",
        "technique": "Coq proof (rounding-model lemmas, algebraic identities over Q, list refinement) + bit-exact differential correspondence",
        "design": "DESIGN.md section 7 C20",
    },
    "C03": {
        "text": "Coq theorems about the checked-read models of every decoder (a read is a pattern match on the byte list, so 'reads outside the supplied bytes' and 'does not return' are values OOB / Fuel of the model): for EVERY byte string the container parser on both routes, the trajectory decoder and every player query at every time, the yaw decoder, the RTH evaluator and point table never produce OOB and never run out of the stated fuel; blocks shorter than their header are refused; the light interpreter's loop stack never exceeds its capacity and its program counter stays valid over any history of seeks; the one way a call does not return (a light program whose cycle consumes no time) is stated as a machine-checked refutation (finding D8). Tied to the compiled code by running the ASan/UBSan-instrumented library (inputs against a guard page, per-call alarm) on the same cases as the models: fixtures and generated files, prefixes, boundary edits, length edits, splices, random strings, both routes, four kinds, raw blocks, full query battery; verdict and results must agree.",
        "note": "PARTIAL where the truth lives in the runtime: undefined behaviour that is not a modelled read/shift/conversion (signed overflow in compiled arithmetic, uninitialised reads, aliasing), allocator behaviour and hangs outside the interpreter loop are only observed by the sanitizer runs, which validate and are not proofs. Known finding D8 (seek does not return on zero-time cycles). Trusted: Coq kernel; hand-written models; gcc 12 sanitizers; extraction; harness. No axioms.",
        "technique": "Coq proof (totality / no-OOB theorems over checked-read models, loop-stack and pc invariants by induction over seeks) + sanitizer-instrumented differential correspondence",
        "design": "DESIGN.md section 7 C03",
    },
    "C06": {
        "text": "Coq theorems about the loader model over both file abstractions (descriptor: reads what is there; memory: view with bounds check) composed with the container model: for every byte string and each of the four kinds the two routes both fail or both succeed with the same block bytes; when both fail the codes differ only for a file that ends inside a block; a successful load is exactly the body of the first record of the kind's type and at least a header long; loaders are total. Since every query is a function of the block bytes alone, equal bytes give equal observations. Tied to the code by differential runs: each route against its model, and route against route inside the harness (block bytes, full query battery before and after clear).",
        "note": "Trusted: Coq kernel; hand-written loader/container model following the repaired code (D1, D2, D11, D17 fixed); read(2)/lseek(2) contract on regular files (memfd in the harness); 'every later observation identical' beyond the block bytes is by the harness comparison C-vs-C, the model-level argument being that queries take only the bytes; extraction. No axioms.",
        "technique": "Coq proof (case analysis over the record grammar for both routes) + differential correspondence of each route against the model and of the routes against each other",
        "design": "DESIGN.md section 7 C06",
    },
    "C13": {
        "text": "Coq theorems: the interval-Horner range enclosure and the leftmost-root search used as the oracle are sound over the reals (NoRoot: the altitude polynomial differs from the target everywhere in the interval; Maybe a b: no crossing before a); a sign change certifies a real root; the scan over segments reports the first segment that can contain a crossing, with no crossing in any earlier segment and none before the box in that segment; infinity exactly for invalid parameters (negative/non-finite ascent, non-positive/non-finite speed, non-positive acceleration), characterised by stats_valid_spec; travel time modelled bit-exactly (C20). Tied to the code by differential runs: the C answer E must lie in the certified box (widened by the stated cubic tolerance), infinity cases exact, statistics interface = proposal.",
        "note": "PARTIAL: the closed-form cubic solver goes through libm cbrtf/cpowf and has no exact model; for cubic altitude segments 'the code returns the first crossing' is checked per instance against the certified box, not proved for all inputs. Known findings D16 (crossing within ~1e-3 of a cubic segment end is missed) and D20 (a segment that reaches the altitude inside and again exactly at its end is reported at its end; pinned by the repository's own unit test, hence recorded, not repaired). Axioms: standard-library reals (sig_forall_dec, sig_not_dec, functional_extensionality_dep, classic). Trusted: Coq kernel; models; tolerances (1% of a cubic segment, 1e-5 relative otherwise); extraction; harness.",
        "technique": "Coq proof (soundness of interval/bisection certificates over R, induction over segments) + per-instance certified differential correspondence",
        "design": "DESIGN.md section 7 C13",
    },
    "C14": {
        "text": "Coq theorems about the model of the landing pass of stats.c: the run tracked across the pass is the longest suffix of vertically descending segments and the fallback is the end of the last other segment; in exact arithmetic the three cases of the property hold (empty run -> total duration; run descends no more than preferred -> start of run; otherwise an instant inside the first segment of the run not wholly above end+preferred); degenerate descents (non-positive, <= FLT_MIN, non-finite) give the total duration; with the code's binary32 subtraction the third case is refuted by a machine-checked witness (finding D9). Tied to the code by differential runs of the binary32-faithful model (answer kind and milliseconds exact, interior instants inside the certified root box) and of the exact specification (differences = D9 only).",
        "note": "PARTIAL: cubic descents per instance (certificate), as C13. Known finding D9. Trusted: Coq kernel; models; root tolerance 1% of a cubic segment; extraction; harness. No axioms for the integer/rational theorems.",
        "technique": "Coq proof (run-tracking invariant by induction over segments, case analysis of the walk) + differential correspondence with certified root boxes",
        "design": "DESIGN.md section 7 C14",
    },
    "C15": {
        "text": "Coq theorems: the certified enclosures poly_max / poly_min (interval Horner + bisection over Q) are sound over the reals - the outer bound dominates the polynomial on the whole interval, the inner bound is a value attained at a rational point - and their fold over all segments (axis_bounds) encloses every position of the axis and both inner bounds are positions the trajectory passes through. The box reported by the library must lie between inner and outer bounds (widened by the stated float tolerance): hence it contains the trajectory and every face is touched. Both loading routes (C06). Tied to the code by differential runs on constant/linear/cubic axes in all combinations and the fixtures.",
        "note": "PARTIAL: that sb_poly_get_extrema finds the extrema is checked per instance against the certified enclosure, not proved for all cubics (quadratic solver in binary32). Known finding D13 (degree-7 axes ignored; recorded by the property text). Axioms: standard-library reals. Trusted: Coq kernel; models; float tolerance; extraction; harness.",
        "technique": "Coq proof (soundness of interval enclosures over R, induction over segments) + per-instance certified differential correspondence",
        "design": "DESIGN.md section 7 C15",
    },
    "C17": {
        "text": "Coq theorems about a model of the allocation discipline of every create / load / mutate / clear / destroy function (buffers, trajectories, light programs and players, yaw controls, RTH plans, builders, RTH entry conversion, sb_poly_solve) over an abstract heap whose free / realloc / delete are checked and in which any one C allocation request can be made to fail: for EVERY number of objects, EVERY sequence of calls and EVERY failure index, no block is released twice and nothing but a live library block is ever freed or resized (never the caller's memory behind a view); after destroying every object nothing is left allocated; a create / load call that reports an error leaves nothing allocated and its object untouched; the call during which the injected failure fires reports SB_ENOMEM, and the object it was working on can still be destroyed; a view refuses to grow. Data-dependent control flow comes from the container and builder models, capacity arithmetic is that of buffer.c. Tied to the code by exact differential runs: result code of every call, allocation event trace with logical block identifiers and sizes (link-time allocator interposition), live blocks at the end, for every scenario and every failure index.",
        "note": "PARTIAL: failures of C++ operator new (sb_light_player_init) are not injected - the property quantifies over C allocations; use-after-free of block CONTENTS is outside the abstract heap (covered by the sanitizer runs of C03 only). Trusted: Coq kernel; hand-written model; harness/alloc_wrap.c; extraction; glibc semantics of calloc(0). No axioms.",
        "technique": "Coq proof (ownership invariant with frame over an abstract heap, induction over call sequences and over the fuel of the builder recursions) + exact differential correspondence of allocation traces under fault injection",
        "design": "DESIGN.md section 7 C17",
    },
}
NOT_YET = "check not built yet in this session (planned: Coq model + theorems + correspondence, see DESIGN.md section 7)"

checks = []
for i in ids:
    if i in CLAIMED:
        c = CLAIMED[i]
        checks.append({
            "property_id": i,
            "quick_cmd": "python3 tools/check.py %s --tier quick" % i,
            "thorough_cmd": "python3 tools/check.py %s --tier thorough" % i,
            "evidence_file": "evidence/%s.json" % i,
            "replay_cmd_template": "python3 tools/check.py %s --replay {path}" % i,
            "engine": "coq-correspondence",
            "level_claimed": {"category": "proof", "text": c["text"], "design_ref": c["design"]},
            "level_note": c["note"],
            "technique": c["technique"],
        })
man = {
    "version": 1,
    "setup_cmd": "bash tools/setup.sh",
    "hooks": {
        "guard": "SB_VERIF",
        "enable": "the harness build (tools/sbv/build.py) compiles /repo/src with -DSB_VERIF=1; no source hook exists today, observation is through public structs, link-time allocator wrapping and a guard-page allocator in the harness",
        "baseline_off_cmd": "cmake -G Ninja -S /repo -B /repo/_build >/dev/null && cmake --build /repo/_build >/dev/null && ctest --test-dir /repo/_build -j8 --timeout 900",
        "source_commits": [],
        "add_only": True,
    },
    "engines": [{
        "name": "coq-correspondence",
        "path": "tools/check.py",
        "serves_properties": sorted(CLAIMED),
        "kind_free_text": "Coq 8.16.1 development (coq/, models + specifications + theorems, Generated.v regenerated from the C sources on every run) + differential correspondence between the extracted OCaml model and the library built from /repo's working tree",
    }],
    "checks": checks,
    "notes": "See DESIGN.md. Evidence is written by tools/check.py on every run.",
    "not_applicable": [{"property_id": i, "reason": NOT_YET} for i in ids if i not in CLAIMED],
}
json.dump(man, open(os.path.join(VERIF, "MANIFEST.json"), "w"), indent=1)
print("MANIFEST.json: %d claimed, %d not yet" % (len(checks), len(man["not_applicable"])))
