"""Build steps shared by all checks: the implementation harness from /repo's
current working tree, the Coq development (with regenerated constants), the
extracted OCaml model."""
import os, sys, hashlib, subprocess, glob, fcntl, time, re, shutil
from concurrent.futures import ThreadPoolExecutor

VERIF = os.path.abspath(os.path.join(os.path.dirname(__file__), "..", ".."))
REPO = os.environ.get("SB_REPO", "/repo")
BUILD = os.path.join(VERIF, "build")
COQ = os.path.join(VERIF, "coq")
GUARD = "SB_VERIF"

SRC_LIB = [
    "buffer.c", "crc32.c", "error.c", "parsing.c", "utils.c", "formats/binary.c",
    "lights/colors.c", "lights/error_handler.cpp", "lights/executor.cpp", "lights/loop_stack.cpp",
    "lights/program.cpp", "lights/transition.cpp", "lights/trigger.cpp",
    "rth_plan/rth_plan.c", "trajectory/builder.c", "trajectory/poly.c", "trajectory/trajectory.c",
    "trajectory/stats.c", "yaw_control/yaw_control.c",
]

VARIANTS = {
    "plain": ["-O1", "-g", "-fno-omit-frame-pointer", "-ffp-contract=off"],
    "asan": ["-O1", "-g", "-fno-omit-frame-pointer", "-ffp-contract=off",
             "-fsanitize=address,undefined,float-cast-overflow,float-divide-by-zero",
             "-fno-sanitize=float-divide-by-zero",
             "-fno-sanitize-recover=all"],
    # development only (tools/coverage.py): which lines of /repo/src do the generated cases reach
    "cov": ["-O0", "-g", "-ffp-contract=off", "--coverage"],
}


class BuildError(Exception):
    def __init__(self, what, log):
        Exception.__init__(self, what)
        self.what = what
        self.log = log


class Lock:
    def __init__(self, name):
        os.makedirs(BUILD, exist_ok=True)
        self.path = os.path.join(BUILD, "." + name + ".lock")

    def __enter__(self):
        self.f = open(self.path, "w")
        fcntl.flock(self.f, fcntl.LOCK_EX)
        return self

    def __exit__(self, *a):
        fcntl.flock(self.f, fcntl.LOCK_UN)
        self.f.close()


def sha(*parts):
    h = hashlib.sha1()
    for p in parts:
        if isinstance(p, str):
            p = p.encode()
        h.update(p)
        h.update(b"\0")
    return h.hexdigest()


def file_bytes(p):
    with open(p, "rb") as f:
        return f.read()


def headers_hash():
    hs = sorted(glob.glob(os.path.join(REPO, "include", "**", "*.h"), recursive=True)
                + glob.glob(os.path.join(REPO, "src", "**", "*.h"), recursive=True)
                + glob.glob(os.path.join(REPO, "src", "**", "*.hpp"), recursive=True))
    return sha(*[file_bytes(h) for h in hs]) if hs else "none"


def run(cmd, cwd=None, timeout=1800, env=None):
    p = subprocess.run(cmd, cwd=cwd, stdout=subprocess.PIPE, stderr=subprocess.STDOUT, timeout=timeout, env=env)
    return p.returncode, p.stdout.decode(errors="replace")


def build_impl(variant="plain", extra_harness=()):
    """Compile the library sources of /repo's working tree (guard define on)
    and link harness/sbh.cpp.  Content-hash cache: an object is rebuilt iff
    its source, any header, or the flags changed.  Returns path of binary."""
    flags = VARIANTS[variant]
    with Lock("impl-" + variant):
        objdir = os.path.join(BUILD, "obj-" + variant)
        os.makedirs(objdir, exist_ok=True)
        hh = headers_hash()
        inc = ["-I" + os.path.join(REPO, "include"), "-I" + os.path.join(REPO, "src")]
        common = ["-D" + GUARD + "=1", "-Wall", "-Wno-unknown-pragmas", "-funwind-tables"] + flags + inc
        if variant == "plain":
            common = common + ["-DSBH_WRAP=1"]
        jobs = []
        objs = []
        for rel in SRC_LIB:
            src = os.path.join(REPO, "src", rel)
            if not os.path.exists(src):
                raise BuildError("missing source " + rel, "")
            iscpp = rel.endswith(".cpp")
            cc = ["g++", "-std=c++11"] if iscpp else ["gcc", "-std=c99", "-D_DEFAULT_SOURCE", "-D_POSIX_C_SOURCE=200809L"]
            key = sha(hh, file_bytes(src), " ".join(cc + common))
            obj = os.path.join(objdir, rel.replace("/", "_") + "." + key[:16] + ".o")
            objs.append(obj)
            if not os.path.exists(obj):
                jobs.append((cc + common + ["-c", src, "-o", obj], obj, rel))
        hsrcs = [os.path.join(VERIF, "harness", "sbh.cpp")] + [os.path.join(VERIF, "harness", e) for e in extra_harness]
        hkey = sha(hh, *[file_bytes(h) for h in hsrcs], " ".join(common))
        hobj = os.path.join(objdir, "sbh." + hkey[:16] + ".o")
        if not os.path.exists(hobj):
            jobs.append((["g++", "-std=c++11"] + common + ["-c", hsrcs[0], "-o", hobj], hobj, "harness/sbh.cpp"))
        allocobj = None
        if variant == "plain":
            asrc = os.path.join(VERIF, "harness", "alloc_wrap.c")
            if os.path.exists(asrc):
                akey = sha(file_bytes(asrc), " ".join(common))
                allocobj = os.path.join(objdir, "alloc_wrap." + akey[:16] + ".o")
                if not os.path.exists(allocobj):
                    jobs.append((["gcc", "-std=c99", "-D_DEFAULT_SOURCE"] + common + ["-c", asrc, "-o", allocobj], allocobj, "harness/alloc_wrap.c"))

        def comp(j):
            rc, out = run(j[0])
            return j, rc, out

        with ThreadPoolExecutor(max_workers=16) as ex:
            for j, rc, out in ex.map(comp, jobs):
                if rc != 0:
                    if os.path.exists(j[1]):
                        os.unlink(j[1])
                    raise BuildError("compile failed: " + j[2], out)
        exe = os.path.join(BUILD, "sbh-" + variant)
        lkey = sha(*(objs + [hobj, allocobj or ""]))
        stamp = exe + ".key"
        if not (os.path.exists(exe) and os.path.exists(stamp) and open(stamp).read() == lkey):
            link = ["g++"] + flags + [hobj] + objs
            if allocobj:
                link += [allocobj, "-Wl,--wrap=malloc,--wrap=calloc,--wrap=realloc,--wrap=free"]
            link += ["-lm", "-o", exe]
            rc, out = run(link)
            if rc != 0:
                raise BuildError("link failed", out)
            with open(stamp, "w") as f:
                f.write(lkey)
        # prune stale objects (keep disk small)
        keep = set(objs + [hobj] + ([allocobj] if allocobj else []))
        for f in glob.glob(os.path.join(objdir, "*.o")):
            if f not in keep and time.time() - os.path.getmtime(f) > 3600:
                try:
                    os.unlink(f)
                except OSError:
                    pass
        return exe


def gen_consts():
    rc, out = run([sys.executable, os.path.join(VERIF, "tools", "gen_consts.py")])
    if rc != 0:
        raise BuildError("translator tools/gen_consts.py failed (a name it must find in the C sources is missing or ambiguous)", out)
    return out


def coq_make(targets=None, keep_going=True, jobs=16, timeout=3000):
    """Full .vo build (never -vos).  Returns (rc, log)."""
    with Lock("coq"):
        if not os.path.exists(os.path.join(COQ, "Makefile")) or \
                os.path.getmtime(os.path.join(COQ, "Makefile")) < os.path.getmtime(os.path.join(COQ, "_CoqProject")):
            rc, out = run(["coq_makefile", "-f", "_CoqProject", "-o", "Makefile"], cwd=COQ)
            if rc != 0:
                raise BuildError("coq_makefile failed", out)
        cmd = ["timeout", str(timeout), "make", "-j%d" % jobs]
        if keep_going:
            cmd.append("-k")
        if targets:
            cmd += targets
        rc, out = run(cmd, cwd=COQ, timeout=timeout + 60)
        return rc, out


def coq_compile_props(pid, timeout=1500):
    """(Re)compile Props/Properties_<pid>.v unconditionally and capture the
    output of Print Assumptions.  Returns (ok, log)."""
    with Lock("coq"):
        v = os.path.join("theories", "Props", "Properties_%s.v" % pid)
        if not os.path.exists(os.path.join(COQ, v)):
            return False, "missing " + v
        cmd = ["timeout", str(timeout), "coqc", "-Q", "theories", "SB", "-w",
               "-notation-overridden,-deprecated-hint-without-locality,-deprecated-instance-without-locality", v]
        rc, out = run(cmd, cwd=COQ, timeout=timeout + 60)
        return rc == 0, out


def build_model():
    """Extract the models and link the OCaml driver.  Rebuilt iff any .vo is
    newer than the binary or the driver changed."""
    with Lock("model"):
        exdir = os.path.join(BUILD, "extracted")
        os.makedirs(exdir, exist_ok=True)
        exe = os.path.join(BUILD, "sbmodel")
        drv = os.path.join(VERIF, "ocaml", "driver.ml")
        vos = glob.glob(os.path.join(COQ, "theories", "**", "*.vo"), recursive=True)
        exv = os.path.join(COQ, "theories", "Extract", "Extract.v")
        exvo = exv + "o"
        deps = [f for f in vos if f != exvo] + [drv, exv]
        newest = max(os.path.getmtime(f) for f in deps)
        if os.path.exists(exe) and os.path.getmtime(exe) >= newest:
            return exe
        rc, out = run(["timeout", "900", "coqc", "-Q", os.path.join(COQ, "theories"), "SB", exv], cwd=exdir)
        if rc != 0:
            raise BuildError("extraction failed", out)
        shutil.copy(drv, os.path.join(exdir, "driver.ml"))
        cmd = ["ocamlfind", "ocamlopt", "-package", "zarith", "-linkpkg", "-w", "-a", "-inline", "100",
               "sbmodel.mli", "sbmodel.ml", "driver.ml", "-o", exe]
        rc, out = run(cmd, cwd=exdir)
        if rc != 0:
            raise BuildError("ocaml build failed", out)
        return exe


def forbidden_scan():
    """The development declares no axiom and leaves nothing admitted."""
    pat = re.compile(r"\b(Admitted|admit|Axiom|Axioms|Parameter|Parameters|Conjecture|Admit Obligations|bypass_check)\b|Unset Guard Checking|Unset Positivity Checking|Unset Universe Checking|-type-in-type|-impredicative-set")
    hits = []
    for f in sorted(glob.glob(os.path.join(COQ, "theories", "**", "*.v"), recursive=True)):
        txt = open(f).read()
        txt = re.sub(r"\(\*.*?\*\)", lambda m: "\n" * m.group(0).count("\n"), txt, flags=re.S)
        for i, line in enumerate(txt.split("\n"), 1):
            if pat.search(line):
                hits.append("%s:%d: %s" % (os.path.relpath(f, VERIF), i, line.strip()))
    cp = open(os.path.join(COQ, "_CoqProject")).read()
    if "type-in-type" in cp or "impredicative-set" in cp:
        hits.append("_CoqProject: forbidden flag")
    return hits
