#!/usr/bin/env python3
"""seed_eval.py <seeded-dir> <property-id> <name> [--checks C01,C08]
Confirms a seeded breaking change (tests pass with it, its demonstration fails
with it and passes without it) in a scratch worktree outside /repo and /verif,
then applies it to /repo, runs the registered quick check(s), undoes it, and
stores everything under /verif/seeded/<name>/ with the verdicts in meta.json.
Development tool: not part of any registered check."""
import os, sys, json, subprocess, shutil, tempfile, time

VERIF = os.path.dirname(os.path.dirname(os.path.abspath(__file__)))
REPO = os.environ.get("SB_REPO", "/repo")


def sh(cmd, cwd=None, timeout=3600, env=None):
    p = subprocess.run(cmd, shell=True, cwd=cwd, stdout=subprocess.PIPE, stderr=subprocess.STDOUT, timeout=timeout, env=env)
    return p.returncode, p.stdout.decode(errors="replace")


def main():
    src, pid, name = sys.argv[1], sys.argv[2], sys.argv[3]
    checks = [pid]
    if "--checks" in sys.argv:
        checks = sys.argv[sys.argv.index("--checks") + 1].split(",")
    skip_confirm = "--skip-confirm" in sys.argv
    src = os.path.abspath(src)
    patch = os.path.join(src, "patch.diff")
    meta = json.load(open(os.path.join(src, "meta.json")))
    ran = []
    ok = True
    if not skip_confirm:
        wt = tempfile.mkdtemp(prefix="sbseed.", dir="/var/tmp")
        os.rmdir(wt)
        rc, out = sh("git -C %s worktree add -q --detach %s HEAD" % (REPO, wt))
        assert rc == 0, out
        try:
            demo_dir = os.path.join(wt, "_demo")
            os.makedirs(demo_dir)
            rc0, out0 = sh("sh %s/build_demo.sh %s && ./demo_bin" % (src, wt), cwd=demo_dir, timeout=900)
            ran.append("clean tree: build_demo.sh + ./demo_bin -> exit %d" % rc0)
            rc, out = sh("git apply %s" % patch, cwd=wt)
            assert rc == 0, "patch does not apply: " + out
            rct, outt = sh("cmake -G Ninja -S . -B _build >/dev/null && cmake --build _build >/dev/null && ctest --test-dir _build -j8 --timeout 900", cwd=wt, timeout=1800)
            tail = [l for l in outt.split("\n") if "tests passed" in l or "tests failed" in l]
            ran.append("patched tree: cmake + ctest -> exit %d (%s)" % (rct, tail[-1].strip() if tail else "?"))
            shutil.rmtree(demo_dir)
            os.makedirs(demo_dir)
            rc1, out1 = sh("sh %s/build_demo.sh %s && ./demo_bin" % (src, wt), cwd=demo_dir, timeout=900)
            ran.append("patched tree: build_demo.sh + ./demo_bin -> exit %d: %s" % (rc1, " | ".join(out1.strip().split("\n")[-3:])[:400]))
            ok = (rc0 == 0 and rct == 0 and rc1 != 0)
        finally:
            sh("git -C %s worktree remove --force %s" % (REPO, wt))
            shutil.rmtree(wt, ignore_errors=True)
    print("\n".join(ran))
    if not ok:
        print("NOT CONFIRMED: kept nothing")
        sys.exit(3)
    # run the checks against /repo with the change applied
    rc, out = sh("git -C %s status --porcelain --untracked-files=no" % REPO)
    assert out.strip() == "", "/repo has local modifications: " + out
    verdicts = {}
    rc, out = sh("git -C %s apply %s" % (REPO, patch))
    assert rc == 0, out
    try:
        env = dict(os.environ)
        env["VERIF_NO_EVIDENCE"] = "1"
        for c in checks:
            t0 = time.time()
            rc, out = sh("python3 tools/check.py %s --tier quick" % c, cwd=VERIF, timeout=7200, env=env)
            vl = [l for l in out.split("\n") if l.startswith("VIOLATION") or l.startswith("  ")][:4]
            verdicts[c] = {"exit": rc, "caught": rc == 1, "lines": vl, "wall_s": round(time.time() - t0, 1)}
            print("check %s on the seeded tree: exit %d %s" % (c, rc, " / ".join(vl)[:500]))
    finally:
        sh("git -C %s checkout -- ." % REPO)
    dst = os.path.join(VERIF, "seeded", name)
    os.makedirs(dst, exist_ok=True)
    for f in os.listdir(src):
        if f in ("demo_bin",) or f.endswith(".o"):
            continue
        if os.path.isfile(os.path.join(src, f)) and os.path.abspath(src) != os.path.abspath(dst):
            shutil.copy(os.path.join(src, f), os.path.join(dst, f))
    old = {}
    if os.path.exists(os.path.join(dst, "meta.json")):
        try:
            old = json.load(open(os.path.join(dst, "meta.json")))
        except Exception:
            old = {}
    meta["property"] = pid
    meta["confirmed"] = ran or old.get("confirmed", [])
    v = old.get("checks", {})
    v.update(verdicts)
    meta["checks"] = v
    meta["caught_by"] = sorted(c for c, x in v.items() if x["caught"])
    json.dump(meta, open(os.path.join(dst, "meta.json"), "w"), indent=1)
    print("stored in", dst, "caught by", meta["caught_by"])


if __name__ == "__main__":
    main()
