#!/bin/bash
# seed_round.sh <dir with <id>-<suffix>/ sub-directories>: development tool; runs tools/seed_eval.py on each
# (serially: each one patches /repo, runs the registered quick check and undoes the patch)
cd "$(dirname "$0")/.."
for d in "$1"/C*-s*; do
  name=$(basename "$d"); pid=${name%%-*}
  echo "=== $name"
  python3 tools/seed_eval.py "$d" "$pid" "$name" 2>&1 | tail -8
done
