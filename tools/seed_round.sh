#!/bin/bash
# seed_round.sh <dir with <id>-<suffix>/ sub-directories> [extra seed_eval args]: development tool; runs
# tools/seed_eval.py on each (serially: each one patches the repository, runs the registered quick check and undoes it)
cd "$(dirname "$0")/.."
d0="$1"; shift
for d in "$d0"/C*-s*; do
  name=$(basename "$d"); pid=${name%%-*}
  echo "=== $name"
  python3 tools/seed_eval.py "$d" "$pid" "$name" "$@" 2>&1 | tail -4
done
