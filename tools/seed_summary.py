#!/usr/bin/env python3
"""seed_summary.py: writes seeded/SUMMARY.md from seeded/*/meta.json (development tool)."""
import json, glob, os
VERIF = os.path.dirname(os.path.dirname(os.path.abspath(__file__)))
rows = []
for f in sorted(glob.glob(os.path.join(VERIF, "seeded", "C*-s*", "meta.json"))):
    name = os.path.basename(os.path.dirname(f))
    m = json.load(open(f))
    summ = (m.get("summary") or m.get("description") or m.get("what") or "").replace("\n", " ").replace("|", "/")
    fp = m.get("first_pass_caught_by", m.get("caught_by"))
    rows.append((name, summ[:260] + ("..." if len(summ) > 260 else ""), ",".join(fp or []) or "-", ",".join(m.get("caught_by") or []) or "-", m.get("note", "")))
with open(os.path.join(VERIF, "seeded", "SUMMARY.md"), "w") as o:
    o.write("# Seeded breaking changes and the checks that catch them\n\n")
    o.write("Each directory holds `patch.diff` (apply with `git -C /repo apply`), a demonstration (`demo.c`/`demo.cpp`, `build_demo.sh`) that fails "
            "with the change and passes without it, and `meta.json`.  The repository's own tests pass with every one of them.  "
            "`first pass` = verdict of the machinery as it stood when the change was written (before any strengthening), "
            "`now` = verdict of the last regression over all stored changes.\n\n")
    o.write("| change | what it does | first pass | now |\n|---|---|---|---|\n")
    for r in rows:
        o.write("| %s | %s | %s | %s%s |\n" % (r[0], r[1], r[2], r[3], (" (" + r[4] + ")") if r[4] else ""))
    n = len(rows)
    o.write("\n%d changes; caught now: %d; caught at first pass: %d.\n" % (n, sum(1 for r in rows if r[3] != "-"), sum(1 for r in rows if r[2] != "-")))
print("written", len(rows))
