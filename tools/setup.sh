#!/bin/bash
# Builds the framework from files on disk only (offline): constants translator,
# full .vo build of the Coq development, extraction + OCaml driver, harness.
set -e
cd "$(dirname "$0")/.."
python3 tools/gen_consts.py
cd coq
coq_makefile -f _CoqProject -o Makefile >/dev/null
timeout 3000 make -j16
cd ..
python3 - <<'PY'
import sys
sys.path.insert(0, "tools")
from sbv import build as B
print(B.build_model())
print(B.build_impl("plain"))
PY
echo setup done
