#!/usr/bin/env python3
"""Kernel cross-check: the same model calls evaluated by `Eval vm_compute`
inside coqc and by the extracted OCaml program must give identical integer
lists (functions xc_* of coq/theories/Extract/XCheck.v).  Run by every check on
a sample aimed at the property's models; a mismatch means the extraction or
the OCaml build cannot be trusted and is reported as a broken obligation."""
import os, sys, re, random, subprocess
HERE = os.path.dirname(os.path.abspath(__file__))
sys.path.insert(0, HERE)
from sbv import build as B
from gens import trajgen, yawgen, lightgen, filegen, skyb
from gens.C11 import rand_plan, encode as rth_encode

FAMILIES = {
    "C01": ["traj", "q"], "C07": ["traj", "q"], "C08": ["traj", "yaw"], "C10": ["yaw", "q"],
    "C02": ["light"], "C09": ["light"], "C03": ["load", "traj", "light", "rth", "yaw"],
    "C04": ["load", "crc"], "C05": ["crc", "load"], "C06": ["load"], "C11": ["rth", "codec"],
    "C12": ["q", "arith"], "C16": ["q", "arith"], "C20": ["q", "arith"], "C19": ["codec", "arith"],
    "C13": ["traj", "q"], "C14": ["traj", "q"], "C15": ["traj", "q"], "C18": ["q", "arith"], "C17": ["alloc", "load"],
}


def zlist(bs):
    return "[" + "; ".join(str(b) for b in bs) + "]"


def hexs(bs):
    return "".join("%02x" % (b & 255) for b in bs) if len(bs) else "-"


def gen(rng, fam):
    """-> (driver line, coq term)"""
    if fam == "arith":
        a = rng.choice([0, 1, -1, 7, -7, 255, 65535, 2 ** 31, -2 ** 31, 2 ** 64 + 3, rng.randint(-10 ** 12, 10 ** 12), rng.randint(-300, 300)])
        b = rng.choice([1, -1, 2, -3, 10, 256, 1000, -1000, 2 ** 32, rng.randint(-10 ** 6, 10 ** 6) or 5, 0])
        return "xc arith %d %d" % (a, b), "xc_arith (%d) (%d)" % (a, b)
    if fam == "q":
        an = rng.choice([0, 1, -1, 3, 12345, -98765, 2 ** 24 + 1, 2 ** 40 + 12345, rng.randint(-10 ** 9, 10 ** 9)])
        ad = rng.choice([1, 2, 3, 1000, 7, 2 ** 20, rng.randint(1, 10 ** 6)])
        bn = rng.choice([1, -1, 1000, 3, 0, rng.randint(-10 ** 6, 10 ** 6)])
        bd = rng.choice([1, 3, 1000, 2 ** 10, rng.randint(1, 10 ** 4)])
        return "xc q %d %d %d %d" % (an, ad, bn, bd), "xc_q (%d) %d (%d) %d" % (an, ad, bn, bd)
    if fam == "codec":
        n = rng.randint(0, 9)
        b = [rng.choice([0, 1, 0x7f, 0x80, 0xff, rng.randrange(256)]) for _ in range(n)]
        off = rng.randint(0, n + 1)
        return "xc codec %s %d" % (hexs(b), off), "xc_codec %s %d%%nat" % (zlist(b), off)
    if fam in ("crc", "load"):
        d = filegen.valid_file(rng)
        if len(d) > 300:
            d = d[:300]
        r = rng.random()
        if r < 0.3 and len(d) > 6:
            d = d[:rng.randint(0, len(d))]
        elif r < 0.5 and len(d) > 6:
            d = bytearray(d)
            d[rng.randrange(len(d))] = rng.randrange(256)
            d = filegen.fix_crc(d) if rng.random() < 0.5 else bytes(d)
        return "xc %s %s" % (fam, hexs(d)), "xc_%s %s" % (fam, zlist(d))
    if fam == "rth":
        b = [x & 255 for x in rth_encode(*rand_plan(rng, False))]
        if rng.random() < 0.2:
            b = b[:rng.randint(0, len(b))]
        tn, td = rng.choice([(0, 1), (5, 1), (-1, 1), (25, 2), (100000, 1), (rng.randint(0, 4000), 8)])
        return "xc rth %s %d %d" % (hexs(b), tn, td), "xc_rth %s (%d) %d" % (zlist(b), tn, td)
    if fam == "traj":
        b = [x & 255 for x in trajgen.encode(trajgen.rand_traj(rng, nseg=rng.choice([0, 1, 2, 3]), maxdeg=rng.choice([1, 3, 7])))]
        if rng.random() < 0.15:
            b = b[:rng.randint(0, len(b))]
        tn, td = rng.choice([(0, 1), (1, 2), (-3, 1), (7, 4), (rng.randint(0, 60000), 1000), (10 ** 6, 1)])
        return "xc traj %s %d %d" % (hexs(b), tn, td), "xc_traj %s (%d) %d" % (zlist(b), tn, td)
    if fam == "yaw":
        b = [x & 255 for x in yawgen.encode(yawgen.rand_yaw(rng, n=rng.choice([0, 1, 3, 5])))]
        if rng.random() < 0.15:
            b = b[:rng.randint(0, len(b))]
        tn, td = rng.choice([(0, 1), (1, 2), (-3, 1), (7, 4), (rng.randint(0, 60000), 1000), (10 ** 6, 1)])
        return "xc yaw %s %d %d" % (hexs(b), tn, td), "xc_yaw %s (%d) %d" % (zlist(b), tn, td)
    if fam == "light":
        b = [x & 255 for x in lightgen.rand_program(rng)][:60]
        t = rng.choice([0, 1, 20, 999, 1000, 5000, rng.randint(0, 20000)])
        return "xc light %s %d" % (hexs(b), t), "xc_light %s %d" % (zlist(b), t)
    if fam == "alloc":
        codes = []
        for _ in range(rng.randint(1, 8)):
            codes += [rng.randint(0, 11), rng.randint(0, 3), rng.choice([0, 1, 2, 5, 9, 40, 130])]
        k = rng.randint(0, 6)
        return "xc alloc %d %s" % (k, ",".join(map(str, codes))), "xc_alloc %d %s" % (k, zlist(codes))
    raise ValueError(fam)


def run(seed, pid, n=48):
    """-> dict(cases=, mismatches=, detail=[...]) ; raises B.BuildError if coqc fails"""
    rng = random.Random(seed * 7919 + 17)
    fams = FAMILIES.get(pid, ["arith", "q"]) + ["arith"]
    cases = [gen(rng, fams[i % len(fams)]) for i in range(n)]
    model = B.build_model()
    d = os.path.join(B.BUILD, "xcheck")
    os.makedirs(d, exist_ok=True)
    v = os.path.join(d, "cases_%s.v" % pid)
    with open(v, "w") as f:
        f.write("From Coq Require Import ZArith List.\nFrom SB Require Import Extract.XCheck.\nImport ListNotations.\nLocal Open Scope Z_scope.\n")
        for _, term in cases:
            f.write("Eval vm_compute in (%s).\n" % term)
    rc, out = B.run(["timeout", "600", "coqc", "-Q", os.path.join(B.COQ, "theories"), "SB", v], cwd=d)
    if rc != 0:
        raise B.BuildError("kernel cross-check: coqc failed on the generated cases", out[-2000:])
    # each answer: "     = [a; b; ...]\n     : list Z"
    answers = []
    for chunk in re.split(r"^\s*= ", out, flags=re.M)[1:]:
        body = chunk.split(": list Z")[0]
        answers.append([int(x) for x in re.findall(r"-?\d+", body)])
    p = subprocess.run([model], input="\n".join(l for l, _ in cases) + "\n", stdout=subprocess.PIPE, stderr=subprocess.PIPE, text=True, timeout=600)
    outs = p.stdout.split("\n")[:len(cases)]
    res = {"cases": len(cases), "mismatches": 0, "detail": [], "families": sorted(set(fams))}
    if len(answers) != len(cases) or len(outs) != len(cases):
        res["mismatches"] = 1
        res["detail"].append("answer count: coq %d, ocaml %d, cases %d" % (len(answers), len(outs), len(cases)))
        return res
    for (line, term), a, o in zip(cases, answers, outs):
        try:
            ol = [int(x) for x in o.split()]
        except ValueError:
            ol = None
        if ol != a:
            res["mismatches"] += 1
            if len(res["detail"]) < 3:
                res["detail"].append("%s: coq %s / ocaml %s" % (line[:200], str(a)[:200], o[:200]))
    return res


if __name__ == "__main__":
    pid = sys.argv[1] if len(sys.argv) > 1 else "C19"
    r = run(int(os.environ.get("VERIF_SEED", "20260929")), pid, int(sys.argv[2]) if len(sys.argv) > 2 else 48)
    print(r)
    sys.exit(1 if r["mismatches"] else 0)
